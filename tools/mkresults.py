#!/usr/bin/env python3
"""Collects RESULT lines (matrix log + targeted re-runs) into seeded/RESULTS.md.
usage: mkresults.py <log files...>   (later files override earlier ones per seed)"""
import sys,re,json,os,glob
res={}
for f in sys.argv[1:]:
    for l in open(f, errors='replace'):
        m=re.match(r'RESULT (\S+): caught_by=\[(.*?)\] machinery=\[(.*?)\]', l)
        if m: res[m.group(1)]=(m.group(2).split(), m.group(3).split(), os.path.basename(f))
out=["# Seeded changes versus the quick checks\n",
"Every seeded change was written by an independent sub-agent that saw only the text of one property and a scratch worktree,",
"was confirmed by the builder in a scratch worktree (demonstration passes on the clean tree, fails with the patch; pinned suite",
"still passes with the patch), then applied to a copy of the repository (`vp run --with-repo`, snapshots) and run against the quick",
"checks: the changes of the first rounds against all twenty checks (cross matrix, `tools/matrix.sh`), every change against the",
"check of its own property after every round (`tools/matrix_own.sh`; the logs are in `seeded/logs/`, later logs override earlier",
"ones per seed, so a row shows the latest run that included the seed).\n",
"| seed | target | what was changed | caught by | own check catches it |","|---|---|---|---|---|"]
miss=[]
for d in sorted(glob.glob('/verif/seeded/C*_*')):
    s=os.path.basename(d)
    try: meta=json.load(open(d+'/meta.json'))
    except Exception: meta={}
    summ=(meta.get('summary','') or '').replace('|','/').replace('\n',' ')
    if len(summ)>230: summ=summ[:227]+'...'
    prop=s.split('_')[0]
    if s in res:
        c,mach,src=res[s]
        own='yes' if prop in c else 'NO'
        if not c: miss.append(s)
        out.append("| %s | %s | %s | %s%s | %s |"%(s,prop,summ,' '.join(c) if c else '**none**',(' (machinery: '+' '.join(mach)+')') if mach else '',own))
    else:
        out.append("| %s | %s | %s | (not run yet) | |"%(s,prop,summ))
out.append("\nSeeds caught by no check: %s\n"%(', '.join(miss) if miss else 'none'))
open('/verif/seeded/RESULTS.md','w').write('\n'.join(out)+'\n')
print("seeds with results:",len(res),"missed:",miss)
