#!/bin/bash
# tools/runall.sh <quick|thorough> [ids...]: runs the registered checks one after the other on /repo,
# copies each evidence file to results/<tier>/ (input of tools/mktable.py), prints one line per check.
HERE=$(cd "$(dirname "${BASH_SOURCE[0]}")/.." && pwd)
T=$1; shift
IDS=${@:-C01 C02 C03 C04 C05 C06 C07 C08 C09 C10 C11 C12 C13 C14 C15 C16 C17 C18 C19 C20}
mkdir -p "$HERE/results/$T"
cd "$HERE" && ./check build >/dev/null 2>&1 || { echo "build failed"; exit 2; }
for c in $IDS; do
  S=$(date +%s); OUT=$(./check $c $T 2>&1); RC=$?; E=$(( $(date +%s) - S ))
  cp "$HERE/evidence/$c.json" "$HERE/results/$T/$c.json" 2>/dev/null
  echo "$c $T rc=$RC total=${E}s $(echo "$OUT" | grep -c '^VIOLATION') violation lines; $(echo "$OUT" | grep -c '^KNOWN-FINDING') known"
done
