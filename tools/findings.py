#!/usr/bin/env python3
"""findings.py add --id F2a --prop C02 --rule R --what TEXT k=v k=v ...   (witness = smallest matching replay file)
   findings.py fixed "fixed: property=C02 <commit> <what>" """
import json,sys,glob,os
import os
ROOT=os.path.dirname(os.path.dirname(os.path.abspath(__file__)))
F=ROOT+'/known_findings.json'
d=json.load(open(F))
if sys.argv[1]=='fixed':
    d['fixed'].append(sys.argv[2]); json.dump(d,open(F,'w'),indent=1); sys.exit(0)
a=sys.argv[2:]
opt={}; match={}
i=0
while i<len(a):
    if a[i].startswith('--'): opt[a[i][2:]]=a[i+1]; i+=2
    else:
        k,v=a[i].split('=',1); match[k]=v; i+=1
best=None
for f in glob.glob(ROOT+'/replays/%s-*.json'%opt['prop']):
    r=json.load(open(f))
    if r['rule']!=opt['rule']: continue
    if all(r['sig'].get(k)==v for k,v in match.items()):
        sz=len(json.dumps(r['case']))+len(json.dumps(r['unit']))
        if best is None or sz<best[0]: best=(sz,r)
if best is None: print("no matching replay"); sys.exit(1)
r=best[1]
d['findings']=[x for x in d['findings'] if x['id']!=opt['id']]
d['findings'].append(dict(id=opt['id'],property=opt['prop'],rule=opt['rule'],match=match,witness=dict(unit=r['unit'],case=r['case']),what=opt['what'],observed=r['observed'][:200]))
json.dump(d,open(F,'w'),indent=1,ensure_ascii=False)
print("added",opt['id'],"witness",json.dumps(r['case'])[:200])
