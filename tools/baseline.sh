#!/bin/bash
# usage: tools/baseline.sh [repo-dir]   — runs the pinned suite, compares with BASELINE.json stable_pass
# prints "BASELINE OK" when every stable test passes; lists regressions otherwise
D=${1:-/repo}
cd "$D" || exit 2
OUT=$(mktemp)
cargo nextest run --workspace --no-fail-fast --offline >"$OUT" 2>&1
python3 - "$OUT" <<'PY'
import json,re,sys
out=open(sys.argv[1]).read()
passed=set()
for m in re.finditer(r'^\s+(?:PASS|LEAK) \[[^\]]*\]\s+\([^)]*\)\s+(\S+)\s+(\S+)\s*$', out, re.M):
    passed.add(m.group(1)+'::'+m.group(2))
base=json.load(open('/root/.vp/BASELINE.json'))['stable_pass']
def ok(t):
    return t in passed
missing=[t for t in base if not ok(t)]
m=re.search(r'Summary.*', out)
print(m.group(0) if m else 'no summary (build failed?)')
if missing:
    print("BASELINE REGRESSIONS:", len(missing)); [print("  ",x) for x in missing[:30]]; sys.exit(1)
print("BASELINE OK (all %d stable tests pass)"%len(base))
PY
RC=$?
rm -f "$OUT"
exit $RC
