#!/bin/bash
# tools/seeded.sh <seeded-dir> [check ids...]
# applies the seeded change to /repo, runs the quick checks (default: all), reverts, prints a table row
D=$1; shift
CHECKS=${@:-C01 C02 C03 C04 C05 C06 C07 C08 C09 C10 C11 C12 C13 C14 C15 C16 C17 C18 C19 C20}
cd /repo || exit 2
if ! git diff --quiet; then echo "/repo has local modifications, refusing"; exit 2; fi
if ! git apply --check "$D/patch.diff" 2>/dev/null; then echo "PATCH DOES NOT APPLY: $D"; exit 2; fi
git apply "$D/patch.diff"
CAUGHT=""; ERR=""
for c in $CHECKS; do
  OUT=$(cd /verif && timeout 900 ./check $c quick 2>&1); RC=$?
  if [ $RC -eq 1 ]; then CAUGHT="$CAUGHT $c"; fi
  if [ $RC -ge 2 ]; then ERR="$ERR $c(rc=$RC)"; fi
done
git -C /repo checkout -- .
echo "RESULT $(basename $D): caught_by=[${CAUGHT# }] machinery=[${ERR# }]"
