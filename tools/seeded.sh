#!/bin/bash
# tools/seeded.sh <seeded-dir> [check ids...]
# applies the seeded change to the repository, runs the quick checks (default: all), reverts,
# prints one RESULT line.  REPO (default /repo) and the check script next to this tool are used.
D=$(cd "$1" && pwd); shift
HERE=$(cd "$(dirname "${BASH_SOURCE[0]}")/.." && pwd)
REPO=${REPO:-/repo}
CHECKS=${@:-C01 C02 C03 C04 C05 C06 C07 C08 C09 C10 C11 C12 C13 C14 C15 C16 C17 C18 C19 C20}
cd "$REPO" || exit 2
if ! git diff --quiet; then echo "$REPO has local modifications, refusing"; exit 2; fi
if ! git apply --check "$D/patch.diff" 2>/dev/null; then echo "RESULT $(basename $D): PATCH DOES NOT APPLY"; exit 2; fi
git apply "$D/patch.diff"
CAUGHT=""; ERR=""
# evidence of runs against the modified repository goes to a scratch directory
export BPAFMC_EVIDENCE=$HERE/target/seeded-evidence
for c in $CHECKS; do
  OUT=$(cd "$HERE" && timeout 1200 ./check $c quick 2>&1); RC=$?
  if [ $RC -eq 1 ]; then CAUGHT="$CAUGHT $c"; fi
  if [ $RC -ge 2 ]; then ERR="$ERR $c(rc=$RC)"; fi
done
git -C "$REPO" checkout -- .
echo "RESULT $(basename $D): caught_by=[${CAUGHT# }] machinery=[${ERR# }]"
