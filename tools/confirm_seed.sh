#!/bin/bash
# tools/confirm_seed.sh <worktree> <seed-dir>: independent confirmation of a seeded change
# 1. demo passes on the clean worktree, 2. patch applies, 3. demo fails with it, 4. baseline OK with it
WT=$1; D=$2
cd "$WT" || exit 2
git checkout -q -- . 2>/dev/null
export CARGO_TARGET_DIR=$WT/target
DEMO=$(ls "$D"/*.rs 2>/dev/null | head -1)
[ -z "$DEMO" ] && { echo "CONFIRM $(basename $D): no demo .rs"; exit 1; }
T=$(basename "$DEMO" .rs)
cp "$DEMO" "$WT/tests/$T.rs"
cargo test --offline --test "$T" >/tmp/confirm_clean.log 2>&1; CLEAN=$?
git apply --check "$D/patch.diff" 2>/dev/null || { echo "CONFIRM $(basename $D): patch does not apply"; exit 1; }
git apply "$D/patch.diff"
cargo test --offline --test "$T" >/tmp/confirm_patched.log 2>&1; PATCHED=$?
BASE=$(/verif/tools/baseline.sh "$WT" 2>&1 | tail -1)
git checkout -q -- .
echo "CONFIRM $(basename $D): demo_clean_rc=$CLEAN (want 0) demo_patched_rc=$PATCHED (want !=0) baseline='$BASE'"
