#!/bin/bash
# tools/confirm_seed.sh <worktree> <seed-dir>: independent confirmation of a seeded change
# 1. demo passes on the clean worktree, 2. patch applies, 3. demo fails with it, 4. baseline OK with it
# FEATURES="derive" (etc.) adds --features to the demo runs; *.rs files named seeded_C* are tests,
# any other *.rs file of the seed is an example program the test spawns; a seed with a run.sh
# script in a sub-directory (C20) is run through that script instead.
WT=$1; D=$2
cd "$WT" || exit 2
git checkout -q -- . 2>/dev/null
export CARGO_TARGET_DIR=$WT/target
FEAT=${FEATURES:+--features "$FEATURES"}
SCRIPT=$(ls "$D"/*/run.sh 2>/dev/null | head -1)
if [ -n "$SCRIPT" ]; then
  SD=$(dirname "$SCRIPT"); rm -rf "$WT/$(basename $SD)"; cp -r "$SD" "$WT/"
  demo() { bash "$WT/$(basename $SD)/run.sh"; }
else
  DEMO=$(ls "$D"/seeded_C*.rs 2>/dev/null | head -1)
  [ -z "$DEMO" ] && { echo "CONFIRM $(basename $D): no demo"; exit 1; }
  T=$(basename "$DEMO" .rs)
  cp "$DEMO" "$WT/tests/$T.rs"
  for f in "$D"/*.rs; do case $(basename $f) in seeded_C*) ;; *) cp "$f" "$WT/examples/"; esac; done
  demo() { eval cargo build --offline --examples $FEAT >/dev/null 2>&1; eval cargo test --offline $FEAT --test "$T"; }
fi
demo >/tmp/confirm_clean_$$.log 2>&1; CLEAN=$?
git apply --check "$D/patch.diff" 2>/dev/null || { echo "CONFIRM $(basename $D): patch does not apply"; exit 1; }
git apply "$D/patch.diff"
demo >/tmp/confirm_patched_$$.log 2>&1; PATCHED=$?
# the demonstration is not part of the suite (a hanging demo would only disturb it)
[ -n "${T:-}" ] && rm -f "$WT/tests/$T.rs"
BASE=$(/verif/tools/baseline.sh "$WT" 2>&1 | tail -1)
git checkout -q -- .
rm -f /tmp/confirm_clean_$$.log /tmp/confirm_patched_$$.log
echo "CONFIRM $(basename $D): demo_clean_rc=$CLEAN (want 0) demo_patched_rc=$PATCHED (want !=0) baseline='$BASE'"
