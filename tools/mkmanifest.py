#!/usr/bin/env python3
"""Regenerates /verif/MANIFEST.json from the table below (single source of truth)."""
import json, sys
CHECKS = {
 "C01": dict(cat="model_checking", technique="explicit-state exhaustive enumeration of the token tree per definition; reference scanner model replayed against run_inner on every node",
   text="Every definition of the conventional family x every argument vector up to the length bound is executed on the real parser and compared with a reference left-to-right scanner (accept + denoted value / reject on stderr). Exhaustive inside the bounds, so any single wrong consumption/catch decision reachable with <=3 items per level and <=3-5 tokens is found.",
   note="Trusted: the reference scanner in harness/src/conv.rs as a faithful reading of the documentation; bounds: <=3 named items per level, depth <=3, vectors <=3..5 tokens; lines in the unspecified region are executed but not judged.", ref="4/C01"),
}
NOT_YET = {}
def main():
    props=[json.loads(l) for l in open('/verif/properties.jsonl')]
    checks=[]; na=[]
    for p in props:
        i=p['id']
        if i in CHECKS:
            c=CHECKS[i]
            checks.append(dict(property_id=i, quick_cmd=f"./check {i} quick", thorough_cmd=f"./check {i} thorough",
              evidence_file=f"/verif/evidence/{i}.json", replay_cmd_template="./check replay {path}", engine="bpafmc",
              level_claimed=dict(category=c['cat'], text=c['text'], design_ref=c['ref']), level_note=c['note'], technique=c['technique']))
        else:
            na.append(dict(property_id=i, reason=NOT_YET.get(i,"check not built yet in this round (planned: bounded exhaustive exploration, see DESIGN.md section 4); no claim is made")))
    m=dict(version=1, setup_cmd="./check build",
      hooks=dict(guard="pacak_bpaf_verif", enable="no hooks are needed: every observation point is public API; checks build /repo as a path dependency of /verif/harness", baseline_off_cmd="cd /repo && cargo nextest run --workspace --no-fail-fast --offline", source_commits=[], add_only=True),
      engines=[dict(name="bpafmc", path="/verif/harness", serves_properties=sorted(CHECKS), kind_free_text="Rust harness: builds real bpaf parsers from a serialisable definition AST, enumerates definitions x argument vectors exhaustively inside stated bounds in 16 single-threaded worker processes, compares with reference models / differential oracles, isolates crashes and hangs, writes evidence and replay files")],
      checks=checks, not_applicable=na,
      notes="All checks: ./check <Cxx> quick|thorough; exit 0 held, 1 VIOLATION, 2 machinery failure. Known findings: /verif/known_findings.json.")
    json.dump(m, open('/verif/MANIFEST.json','w'), indent=1)
    print("checks:", [c['property_id'] for c in checks], "na:", len(na))
main()
