#!/usr/bin/env python3
"""Regenerates /verif/MANIFEST.json from the table below (single source of truth)."""
import json, sys
CHECKS = {
 "C01": dict(cat="model_checking", technique="explicit-state exhaustive enumeration of the token tree per definition; reference scanner model replayed against run_inner on every node",
   text="Every definition of the conventional family x every argument vector up to the length bound is executed on the real parser and compared with a reference left-to-right scanner (accept + denoted value / reject on stderr). Exhaustive inside the bounds, so any single wrong consumption/catch decision reachable with <=3 items per level and <=3-5 tokens is found.",
   note="Trusted: the reference scanner in harness/src/conv.rs as a faithful reading of the documentation; bounds: <=3 named items per level, depth <=3, vectors <=3..5 tokens; lines in the unspecified region are executed but not judged.", ref="4/C01"),
 "C02": dict(cat="exploration", technique="exhaustive enumeration of abstract sentences x every concrete spelling, run on the real parser, compared with the denotation",
   text="Every abstract sentence of <=3 (item, value-bytes) occurrences is rendered in every spelling (--n v, --n=v, -n v, -n=v, -nv, aliases, every flag clustering, clusters ending in an attached short argument) for definitions over ASCII and non-ASCII names and four value types; every spelling must produce what the sentence denotes, adjacent arguments must reject exactly the two-item spellings. Exhaustive within the value alphabet, so byte/char confusions and = handling slips are found.",
   note="Trusted: occurrence semantics in conv.rs::parse_level. Value alphabet of 14 byte strings incl. empty, '=', leading dashes, non-ASCII, invalid UTF-8, 300 bytes. Known findings F2a/F2b/F3a/F3b/F10 listed in known_findings.json.", ref="4/C02"),
 "C03": dict(cat="exploration", technique="exhaustive metamorphic enumeration: every base vector of the token tree x every order-preserving permutation of its whole occurrences, outcomes compared on the real parser",
   text="For each definition (shape family with alternatives, optional/repeated groups, guards, hidden items, plus the conventional family) every vector up to the length bound is segmented into whole occurrences and all permutations allowed by the property are executed; any outcome difference is a violation.",
   note="Trusted: the segmenter (shape.rs) that decides what a whole named occurrence is; vectors that are not sequences of whole occurrences are skipped.", ref="4/C03"),
 "C05": dict(cat="exploration", technique="exhaustive enumeration of accepted vectors (token tree) x every single-item insertion at every position; ledger of value leaves",
   text="Accepted vectors are discovered by walking the whole token tree of each definition (shape family, conventional family, adjacent groups and adjacent commands); for each, the value leaves must equal the value items, and every insertion of an unknown flag, --flag=x, a second copy of a single-use option or a surplus word at every position must give an stderr failure.",
   note="Ledger clause skipped for definitions with last() and below command names; surplus-word clause only when capacity is finite and full.", ref="4/C05"),
 "C07": dict(cat="model_checking", technique="explicit-state exhaustive enumeration of the token tree per choice definition; reference model of exclusive alternatives replayed against run_inner on every node",
   text="All choices over 2..4 alternatives of 7 kinds (bare/optional/many/some, with and without a neighbouring switch) x all vectors up to the bound; a reference model computes the touched alternatives and the expected value or failure; every node is compared.",
   note="Unspecified region (executed, not judged): many/some over multi-item alternatives, parent switch right of a command name, attached short values.", ref="4/C07"),
 "C19": dict(cat="model_checking", technique="explicit-state exhaustive enumeration of the token tree per adjacent-group definition; block-scanner reference model replayed against run_inner on every node",
   text="135 adjacent group definitions (5 group shapes x bare/optional/many x trailing positional x neighbouring switch) x all vectors up to 5-7 tokens; a block scanner (leading flag + contiguous members) gives the expected value or failure for every node.",
   note="Trusted: block scanner in checks/c19.rs. Alphabets of 6-8 tokens include foreign items and `--`.", ref="4/C19"),
 "C08": dict(cat="model_checking", technique="explicit-state exhaustive enumeration (token tree + every misplacement of every deeper-level block) per command tree; level-aware reference scanner replayed against run_inner on every node; help text of every command path inspected",
   text="504 command trees of depth <=3 (siblings, aliases, required/optional/fallback choice) x all vectors up to the bound, plus for every command path and alias the canonical sentence and every displacement of a deeper block to the left of its command name, unknown/duplicated/displaced command names; judged by the level-aware scanner; `path --help` must print the usage of exactly that level and only its names.",
   note="Help clause uses lines whose enclosing levels are complete (the property quantifies over such lines); help on incomplete lines is C10's.", ref="4/C08"),
 "C09": dict(cat="model_checking", technique="explicit-state exhaustive enumeration of the token tree per positional definition; reference scanner (separator + strictness rules) replayed against run_inner on every node",
   text="676 definitions (every unambiguous suffix of 0..3 positionals x every strictness assignment, beside nothing/switch/argument/sub-command) x all vectors over words, dash-looking items, `--`, `--help`, `--name`, `--name=--`; the scanner fixes which side of the first `--` each positional may take from and that the right side is verbatim data.",
   note="Help tokens left of `--` are in the unspecified region of this check (C10 covers them); right of `--` they are data and are judged.", ref="4/C09"),
 "C18": dict(cat="model_checking", technique="explicit-state exhaustive enumeration of (definition x environment state x token tree); reference scanner with the env fallback rule replayed against run_inner in single-threaded workers that really set the variables",
   text="Every item kind backed by one variable, two variables or a variable only, x every state (unset, empty, valid, invalid, non-UTF-8) of every declared variable x every vector up to the bound; line occurrences win, the variable supplies one occurrence otherwise, conversion applies equally; undeclared look-alike variables never change the outcome; --help shows the declared variable state.",
   note="Process environment is mutated between cases inside single-threaded worker processes.", ref="4/C18"),
 "C10": dict(cat="exploration", technique="exhaustive enumeration of base vectors (token tree) x every insertion position of the help/version token; reference level-finder; outcome compared byte-for-byte with the owning level's canonical help",
   text="For conventional levels, command trees, general shapes and adjacent groups every vector up to the bound gets --help/-h/--version/-V (and custom help names) inserted at every position left of `--`; the outcome must be stdout and equal to the help/version text of the level owning that position; unconfigured version is an ordinary unknown flag.",
   note="Positions right of an enclosing-level option written after a command name are skipped (ownership not fixed by the documentation); for general shapes the level is judged only while no command name precedes the position.", ref="4/C10"),
 "C04": dict(cat="exploration", technique="exhaustive enumeration of a shape grammar (filtered by check_invariants) x hostile byte-string vectors x 17 modes under catch_unwind in supervised worker processes (panic / process death / hang isolation), plus run-history comparison",
   text="About 8500 definitions (every leaf under every wrapper and wrapper pair, every seq/alt/adjacent combination, rotating option-level configurations with styled non-ASCII texts) are run on every single hostile item and every pair of the sharpest ones in parse mode, completion revisions 0/1/7/8/9 with and without an application name, completion marker first/last, and through render_markdown/html/manpage; any panic, process exit, abort or stall is a violation; outcomes must be identical on a used object and on a fresh one in reverse order.",
   note="Hang = a worker makes no progress for 120 s (quick) / 600 s (thorough); polynomial slowness on 600-character items is not a hang. Known finding F9 (hidden adjacent group without a required first item).", ref="4/C04"),
 "C06": dict(cat="exploration", technique="exhaustive enumeration of wrapper stacks x contexts x accepted vectors (token tree) x every invalid replacement of every typed value, and removal of the item; outcomes and message text checked on the real parser",
   text="A typed u32 primitive (FromStr, .parse, guard, positional, env-backed) under every type-correct wrapper stack of depth <=3 in four contexts; every accepted vector gets each typed value replaced by six kinds of invalid text (must fail on stderr carrying the conversion/guard message) and the item removed (value iff the stack defaults).",
   note="Nothing is demanded under catch; message text is not demanded inside an alternative (as the property says).", ref="4/C06"),
 "C12": dict(cat="exploration", technique="exhaustive enumeration of definition tuples x command levels; help text tokenised and compared with an independent visibility calculator; acceptance of shown names searched on the level's own parser",
   text="Every ordered tuple of <=3 distinct fields from 15 documented kinds x 6 tails x 4 option-level configurations (17736 definitions, every command level): each visible item has exactly one row with first names, metavariable and first help paragraph; hidden items, alias names and hidden commands never appear; hide_usage/custom_usage on any field leave everything after the usage block byte-identical; description, usage, header, lists, footer in order; every shown name is accepted by that level's parser.",
   note="Trusted: the visibility calculator (vis.rs). Row matching assumes the family's short help texts (no wrapping at width 100).", ref="4/C12"),
 "C13": dict(cat="exploration", technique="exhaustive enumeration of fragment concatenations x layout skeletons x widths; renderings compared with the unwrapped rendering and with the first-paragraph variant of the same definition",
   text="12 layout skeletons with the text slot ranging over every concatenation of <=3 (thorough 4) fragments from 13 (long word, breaks, blank lines, code line, non-ASCII, tab, NBSP, ESC, dashes), each rendered at every width 1..100(300): identical content modulo whitespace, width respected from 40 columns up with the documented exemptions, short help equals the full help of the first-paragraph variant.",
   note="Widths above 300 other than 65535 are not explored; error documents are those of one rejected vector per skeleton.", ref="4/C13"),
 "C16": dict(cat="exploration", technique="exhaustive enumeration of definition tuples and of metacharacter fragment concatenations x text slots x three renderers; outputs scanned by independent HTML tag and roff lexers and sectioned per command level",
   text="Structure: the C12 family rendered by render_markdown/html/manpage must have one section per reachable command level mentioning every visible name and no hidden/alias name. Text: 8 text slots x every concatenation of <=3 (thorough 4) of 20 roff/HTML/markdown metacharacter fragments; HTML must consist of the renderer's own tags, perfectly nested, with no raw angle bracket from user text; every manpage line starting with a control character must be one of bpaf's requests, only bpaf's escapes may occur and decoding them gives the help lines back.",
   note="Trusted: lex_html / lex_roff in checks/c16.rs. Markdown is only checked for sections and names (the property demands no escaping there).", ref="4/C16"),
}
NOT_YET = {}
def main():
    props=[json.loads(l) for l in open('/verif/properties.jsonl')]
    checks=[]; na=[]
    for p in props:
        i=p['id']
        if i in CHECKS:
            c=CHECKS[i]
            checks.append(dict(property_id=i, quick_cmd=f"./check {i} quick", thorough_cmd=f"./check {i} thorough",
              evidence_file=f"/verif/evidence/{i}.json", replay_cmd_template="./check replay {path}", engine="bpafmc",
              level_claimed=dict(category=c['cat'], text=c['text'], design_ref=c['ref']), level_note=c['note'], technique=c['technique']))
        else:
            na.append(dict(property_id=i, reason=NOT_YET.get(i,"check not built yet in this round (planned: bounded exhaustive exploration, see DESIGN.md section 4); no claim is made")))
    m=dict(version=1, setup_cmd="./check build",
      hooks=dict(guard="pacak_bpaf_verif", enable="no hooks are needed: every observation point is public API; checks build /repo as a path dependency of /verif/harness", baseline_off_cmd="cd /repo && cargo nextest run --workspace --no-fail-fast --offline", source_commits=[], add_only=True),
      engines=[dict(name="bpafmc", path="/verif/harness", serves_properties=sorted(CHECKS), kind_free_text="Rust harness: builds real bpaf parsers from a serialisable definition AST, enumerates definitions x argument vectors exhaustively inside stated bounds in 16 single-threaded worker processes, compares with reference models / differential oracles, isolates crashes and hangs, writes evidence and replay files")],
      checks=checks, not_applicable=na,
      notes="All checks: ./check <Cxx> quick|thorough; exit 0 held, 1 VIOLATION, 2 machinery failure. Known findings: /verif/known_findings.json.")
    json.dump(m, open('/verif/MANIFEST.json','w'), indent=1)
    print("checks:", [c['property_id'] for c in checks], "na:", len(na))
main()
