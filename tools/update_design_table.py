#!/usr/bin/env python3
"""Regenerates the table between <!-- TABLE --> markers of DESIGN.md from results/ (tools/mktable.py)."""
import subprocess, re
t = subprocess.run(["python3", "/verif/tools/mktable.py", "/verif/results"], capture_output=True, text=True).stdout
p = "/verif/DESIGN.md"
s = open(p).read()
s = re.sub(r"<!-- TABLE -->.*?<!-- /TABLE -->", "<!-- TABLE -->\n" + t + "<!-- /TABLE -->", s, flags=re.S)
open(p, "w").write(s)
print("table updated")
