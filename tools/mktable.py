#!/usr/bin/env python3
"""tools/mktable.py <results-dir>: prints the section-4 table of DESIGN.md from saved evidence
copies (<results-dir>/quick/<id>.json and <results-dir>/thorough/<id>.json, written by
tools/runall.sh)."""
import json, sys, os
root = sys.argv[1]
def load(t, i):
    p = os.path.join(root, t, i + ".json")
    return json.load(open(p)) if os.path.exists(p) else None
def n(x):
    if x is None: return "-"
    if x >= 1e6: return "%.1f M" % (x / 1e6)
    if x >= 1e3: return "%.0f k" % (x / 1e3)
    return str(x)
print("| id | level | definitions q / t | evaluations q / t | judged non-trivial q / t | wall q / t |")
print("|----|-------|-------------------|-------------------|--------------------------|------------|")
for k in range(1, 21):
    i = "C%02d" % k
    q, t = load("quick", i), load("thorough", i)
    def g(e, f):
        return None if e is None else e["coverage"].get(f)
    def w(e):
        return "-" if e is None else "%.0f s" % e["wall_s"]
    lvl = (q or t or {}).get("level", "-")
    print("| %s | %s | %s / %s | %s / %s | %s / %s | %s / %s |" % (i, lvl, n(g(q, "programs")), n(g(t, "programs")), n(g(q, "evaluations")), n(g(t, "evaluations")), n(g(q, "distinct_nontrivial")), n(g(t, "distinct_nontrivial")), w(q), w(t)))
