#!/usr/bin/env python3
"""Generates /verif/derive_family/src/generated.rs: for every element of a bounded family a
`#[derive(Bpaf)]` type and the hand-written combinator parser the *documentation* prescribes
for it.  The manual side is produced by an independent implementation of the documented rules
(kebab-case, one-character name => short, bool/()/Option/Vec/T => switch/req_flag/optional/
many/required, unnamed => positional in order, unit variant => req_flag, command variants,
doc comments => help / descr-header-footer, explicit annotations override only what they name).

usage: gen_derive.py <quick|thorough> <seed> <outfile>
"""
import sys, itertools

tier = sys.argv[1] if len(sys.argv) > 1 else "quick"
seed = int(sys.argv[2]) if len(sys.argv) > 2 else 0
out_path = sys.argv[3] if len(sys.argv) > 3 else "/verif/derive_family/src/generated.rs"

# ------------------------------------------------------------------------------------------
# documented rules
# ------------------------------------------------------------------------------------------
def bare(ident):
    return ident[2:] if ident.startswith("r#") else ident

def kebab(ident):
    res = ""
    for c in bare(ident):
        if c.isupper():
            if res:
                res += "-"
            res += c.lower()
        elif c in "-_":
            res += "-"
        else:
            res += c
    return res

def rs_str(s):
    return '"' + s.replace("\\", "\\\\").replace('"', '\\"').replace("\n", "\\n") + '"'

SHAPES = {
    "bool": ("bool", None),
    "()": ("unit", None),
    "String": ("direct", "String"),
    "u32": ("direct", "u32"),
    "Option<String>": ("optional", "String"),
    "Option<u32>": ("optional", "u32"),
    "Vec<String>": ("multiple", "String"),
    "Vec<u32>": ("multiple", "u32"),
}

class Field:
    """ident: None for unnamed; ty: rust type; naming: list of ('short', None|'x') / ('long', None|'n');
    env: var or None; consumer: None | 'argument' | 'positional' | 'switch' | ('flag', a, b) | ('req_flag', v);
    metavar: for argument/positional; post: list of postprocessing annotation strings; doc: help"""
    def __init__(self, ident, ty, naming=(), env=None, consumer=None, metavar=None, post=(), doc=None, doc_style=None, env2=None):
        # env2: a second variable, written after the names (first one before them)
        self.env2 = env2
        # doc_style: None: `/// text`; "attr": `#[doc = "text"]` (what a declarative macro emits,
        # no leading space); "tight": `///text`
        self.doc_style = doc_style
        self.ident, self.ty, self.naming, self.env = ident, ty, list(naming), env
        self.consumer, self.metavar, self.post, self.doc = consumer, metavar, list(post), doc

    # ---- the derive side: just the annotations -------------------------------------------
    def attr(self):
        parts = []
        for kind, val in self.naming:
            if val is None:
                parts.append(kind)
            elif kind == "short":
                parts.append("short('%s')" % val)
            else:
                parts.append("long(%s)" % rs_str(val))
        if self.env:
            if self.env2:
                parts.insert(0, "env(%s)" % rs_str(self.env))
                parts.append("env(%s)" % rs_str(self.env2))
            else:
                parts.append("env(%s)" % rs_str(self.env))
        if self.consumer == "argument":
            parts.append("argument(%s)" % rs_str(self.metavar) if self.metavar else "argument")
        elif self.consumer == "positional":
            parts.append("positional(%s)" % rs_str(self.metavar) if self.metavar else "positional")
        elif self.consumer == "switch":
            parts.append("switch")
        elif isinstance(self.consumer, tuple) and self.consumer[0] == "flag":
            parts.append("flag(%s, %s)" % (self.consumer[1], self.consumer[2]))
        elif isinstance(self.consumer, tuple) and self.consumer[0] == "req_flag":
            parts.append("req_flag(%s)" % self.consumer[1])
        parts.extend(self.post)
        s = ""
        if self.doc:
            for line in self.doc.split("\n"):
                if self.doc_style == "attr":
                    s += "    #[doc = %s]\n" % rs_str(line)
                elif self.doc_style == "tight":
                    s += "    ///%s\n" % line
                else:
                    s += "    /// %s\n" % line if line else "    ///\n"
        if parts:
            s += "    #[bpaf(%s)]\n" % ", ".join(parts)
        return s

    def decl(self):
        if self.ident is None:
            return self.attr() + "    %s,\n" % self.ty
        return self.attr() + "    %s: %s,\n" % (self.ident, self.ty)

    # ---- the manual side: the documented combinator equivalent ------------------------------
    def manual(self):
        shape, inner = SHAPES[self.ty]
        cons = self.consumer
        named_field = self.ident is not None
        has_naming = len(self.naming) > 0
        # implicit consumer from the type
        if cons is None:
            if shape == "bool":
                cons = "switch"
            elif shape == "unit":
                cons = ("req_flag", "()")
            elif named_field or has_naming:
                cons = "argument"
            else:
                cons = "positional"
        needs_name = cons != "positional"
        names = []
        for kind, val in self.naming:
            if kind == "short":
                names.append("short('%s')" % (val if val is not None else kebab(self.ident)[0]))
            else:
                names.append("long(%s)" % rs_str(val if val is not None else kebab(self.ident)))
        if needs_name and not names:
            nm = bare(self.ident)
            if len(nm) == 1:
                names.append("short('%s')" % nm)
            else:
                names.append("long(%s)" % rs_str(kebab(self.ident)))
        if self.env:
            names.append("env(%s)" % rs_str(self.env))
            if self.env2:
                names.append("env(%s)" % rs_str(self.env2))
        help_ = ".help(%s)" % rs_str(doc_to_help(self.doc)) if self.doc else ""
        ty = inner if inner else None
        if cons == "switch":
            expr = ".".join(names) + help_ + ".switch()"
        elif isinstance(cons, tuple) and cons[0] == "flag":
            expr = ".".join(names) + help_ + ".flag(%s, %s)" % (cons[1], cons[2])
        elif isinstance(cons, tuple) and cons[0] == "req_flag":
            expr = ".".join(names) + help_ + ".req_flag(%s)" % cons[1]
        elif cons == "argument":
            t = ty if ty else self.ty
            expr = ".".join(names) + help_ + ".argument::<%s>(%s)" % (t, rs_str(self.metavar or "ARG"))
        else:
            t = ty if ty else self.ty
            expr = "positional::<%s>(%s)%s" % (t, rs_str(self.metavar or "ARG"), help_)
        # implicit optional / many from the type, unless the annotations already say how to
        # collect (optional / many / some) - explicit annotations override what they name
        explicit_collect = any(p.split("(")[0] in ("optional", "many", "some", "collect", "count", "last", "fallback", "fallback_with", "parse", "map", "guard") and p.split("(")[0] in ("optional", "many", "some", "collect", "count", "last", "parse", "map") for p in self.post)
        if not explicit_collect and cons not in ("switch",) and not (isinstance(cons, tuple)):
            if shape == "optional":
                expr += ".optional()"
            elif shape == "multiple":
                expr += ".many()"
        for p in self.post:
            expr += "." + (p if "(" in p else p + "()")
        return expr

    def var(self, ix):
        return bare(self.ident) if self.ident is not None and not self.ident.startswith("r#") else (self.ident if self.ident else "f%d" % ix)

def doc_to_help(doc):
    # a doc comment becomes the help text; lines are joined with line breaks the way rustdoc
    # attributes are concatenated
    return "\n".join(doc.split("\n"))

# ------------------------------------------------------------------------------------------
# families
# ------------------------------------------------------------------------------------------
IDENTS = ["verbose", "dry_run", "v", "r#type", "file_name2", "ä"]
IDENTS = IDENTS[seed % len(IDENTS):] + IDENTS[:seed % len(IDENTS)]

def single_field_specs():
    specs = []
    for ident in IDENTS:
        one = len(bare(ident)) == 1
        for ty in SHAPES:
            shape, inner = SHAPES[ty]
            # annotation sets valid for this type
            anns = [dict()]
            anns.append(dict(doc="help for the field"))
            anns.append(dict(naming=[("short", None)]))
            anns.append(dict(naming=[("long", None)]))
            anns.append(dict(naming=[("short", None), ("long", None)]))
            anns.append(dict(naming=[("short", "x")]))
            anns.append(dict(naming=[("long", "custom-name")]))
            anns.append(dict(naming=[("short", None), ("long", "alt"), ("long", "alias2")], doc="with aliases"))
            anns.append(dict(env="BPAFMC_DERIVE", naming=[("long", None)]))
            anns.append(dict(post=["hide"]))
            if ident in IDENTS[:2]:
                anns.append(dict(env="BPAFMC_DERIVE", env2="BPAFMC_DERIVE_B", naming=[("long", None)], doc="two variables"))
                anns.append(dict(doc="help without a leading space", doc_style="attr"))
                anns.append(dict(doc="help right after the slashes\nsecond line", doc_style="tight", naming=[("long", None)]))
            if shape in ("direct", "optional", "multiple"):
                anns.append(dict(consumer="argument", metavar="META"))
                anns.append(dict(consumer="positional"))
                anns.append(dict(consumer="positional", metavar="POS", doc="positional help"))
            if shape == "direct":
                dflt = 'String::from("dflt")' if inner == "String" else "42"
                anns.append(dict(post=["fallback(%s)" % dflt]))
                anns.append(dict(naming=[("short", None)], post=["fallback(%s)" % dflt], doc="defaulted"))
            if shape == "bool":
                anns.append(dict(consumer="switch", naming=[("short", "s")]))
                anns.append(dict(consumer=("flag", "true", "false"), naming=[("long", None)]))
            if ty == "u32":
                anns.append(dict(consumer=("flag", "7", "0"), naming=[("long", None)]))
                anns.append(dict(consumer=("req_flag", "9")))
                anns.append(dict(post=['guard(less_than_ten, "must be below ten")']))
            if shape == "multiple":
                anns.append(dict(consumer="argument", post=['some("need at least one")']))
                anns.append(dict(consumer="argument", post=["many"]))
            if shape == "optional":
                anns.append(dict(consumer="argument", post=["optional"]))
            for a in anns:
                if one and a.get("naming") == [("short", None), ("long", None)]:
                    pass
                specs.append(Field(ident, ty, **a))
    return specs

def pair_universe():
    u = [
        Field("alpha", "bool"),
        Field("b", "bool", doc="short switch"),
        Field("count", "u32"),
        Field("name", "Option<String>", naming=[("short", None), ("long", None)]),
        Field("list", "Vec<String>", naming=[("short", "l")]),
        Field("dry_run", "bool", naming=[("long", None), ("short", "n")]),
        Field("unit", "()"),
        Field("level", "u32", post=["fallback(3)"]),
        Field("file", "String", consumer="positional", metavar="FILE"),
        Field("rest", "Vec<String>", consumer="positional"),
    ]
    return u

class Item:
    """one generated type + its manual parser"""
    def __init__(self):
        self.derive_src = ""
        self.manual_src = ""
        self.kind = ""        # 'options' (both OptionParser) or 'parser' (both impl Parser -> wrapped)
        self.alphabet = []
        self.paths = [[]]
        self.descr = ""

items = []

def top_doc_lines(doc):
    return "".join("/// %s\n" % l if l else "///\n" for l in doc.split("\n"))

MODES = ["parser", "options", "command", "command_named", "options_version", "options_usage", "options_fallback_usage", "boxed", "options_doc3", "parser_doc", "options_descr_doc", "command_doc3", "options_doc_indented", "command_doc_indented", "options_cargo", "options_doc_attr"]

def emit_struct(i, fields, mode, tuple_struct=False):
    it = Item()
    ty = "T%d" % i
    # the implied command name is the kebab-cased type name: use a two-word type name there
    if mode in ("command", "command_doc3", "command_doc_indented"):
        ty = "CmdT%d" % i
    cmdname = kebab(ty)
    top_attr = []
    top_doc = ""
    manual_tail = ""
    manual_head = ""
    top_doc_style = None
    wrap = "parser"
    if mode == "parser":
        top_attr = []
    elif mode == "options":
        top_attr = ["options"]
        wrap = "options"
    elif mode == "command":
        top_attr = ["command"]
        wrap = "command"
        manual_tail = '.to_options().command(%s)' % rs_str(cmdname)
    elif mode == "command_named":
        top_attr = ['command("renamed")', "short('r')", "short('m')", 'long("other-name")']
        wrap = "command"
        manual_tail = '.to_options().command("renamed").short(\'r\').short(\'m\').long("other-name")'
    elif mode == "options_version":
        top_attr = ["options", 'version("1.2.3")']
        wrap = "options"
        manual_tail = '.to_options().version("1.2.3")'
    elif mode == "options_usage":
        top_attr = ["options", 'usage("custom usage line")']
        wrap = "options"
        manual_tail = '.to_options().usage("custom usage line")'
    elif mode == "options_fallback_usage":
        top_attr = ["options", "fallback_to_usage"]
        wrap = "options"
        manual_tail = ".to_options().fallback_to_usage()"
    elif mode == "boxed":
        top_attr = ["boxed"]
    elif mode == "options_doc3":
        top_attr = ["options"]
        wrap = "options"
        top_doc = "the description\n\n\nthe header\n\n\nthe footer"
        manual_tail = '.to_options().descr("the description").header("the header").footer("the footer")'
    elif mode == "options_descr_doc":
        # an explicit descr(..) overrides exactly the description: the first block of the doc
        # comment is dropped, the other blocks are still header and footer
        top_attr = ["options", 'descr("explicit description")']
        wrap = "options"
        top_doc = "ignored first block\n\n\nthe header\n\n\nthe footer"
        manual_tail = '.to_options().descr("explicit description").header("the header").footer("the footer")'
    elif mode == "command_doc3":
        top_attr = ["command"]
        wrap = "command"
        top_doc = "command description\n\n\ncommand header\n\n\ncommand footer"
        manual_tail = '.to_options().descr("command description").header("command header").footer("command footer").command(%s)' % rs_str(cmdname)
    elif mode == "options_doc_indented":
        # blocks whose first line is indented (a usage or example line) keep the indentation
        top_attr = ["options"]
        wrap = "options"
        top_doc = "the description\n\n\n  tool [-v] FILE...\nis the only form\n\n\n    tool -v a b\nruns verbosely"
        manual_tail = '.to_options().descr("the description").header("  tool [-v] FILE...\\nis the only form").footer("    tool -v a b\\nruns verbosely")'
    elif mode == "command_doc_indented":
        top_attr = ["command"]
        wrap = "command"
        top_doc = "command description\n\n\n  run [--fast]\nnothing else"
        manual_tail = '.to_options().descr("command description").header("  run [--fast]\\nnothing else").command(%s)' % rs_str(cmdname)
    elif mode == "options_cargo":
        # `options("name")`: a cargo sub-command, an optional leading `name` is skipped first
        top_attr = ['options("pretty")']
        wrap = "options"
        manual_head = 'bpaf::batteries::cargo_helper("pretty", '
        manual_tail = ").to_options()"
    elif mode == "options_doc_attr":
        # the doc attribute written out (no leading space to strip)
        top_attr = ["options"]
        wrap = "options"
        top_doc = "the description\n\n\nthe header"
        top_doc_style = "attr"
        manual_tail = '.to_options().descr("the description").header("the header")'
    elif mode == "parser_doc":
        top_doc = "group title"
        manual_tail = '.group_help("group title")'
    if wrap == "options" and not manual_tail:
        manual_tail = ".to_options()"
    top_attr.append("generate(d%d)" % i)
    src = ""
    if top_doc and top_doc_style == "attr":
        src += "".join("#[doc = %s]\n" % rs_str(l) for l in top_doc.split("\n"))
    else:
        src += top_doc_lines(top_doc) if top_doc else ""
    src += "#[derive(Debug, Clone, PartialEq, Bpaf)]\n#[bpaf(%s)]\n" % ", ".join(top_attr)
    if tuple_struct:
        src += "pub struct %s(\n" % ty + "".join(f.decl() for f in fields) + ");\n"
    else:
        src += "pub struct %s {\n" % ty + "".join(f.decl() for f in fields) + "}\n"
    it.derive_src = src
    lets = ""
    vars_ = []
    for ix, f in enumerate(fields):
        v = ("f%d" % ix) if tuple_struct else (f.ident if not f.ident.startswith("r#") else f.ident)
        vars_.append(v)
        lets += "    let %s = %s;\n" % (v, f.manual())
    if tuple_struct:
        cons = "construct!(%s(%s))" % (ty, ", ".join(vars_))
    else:
        cons = "construct!(%s { %s })" % (ty, ", ".join(vars_))
    if wrap == "options":
        ret = "OptionParser<%s>" % ty
    else:
        ret = "impl Parser<%s>" % ty
    man = "pub fn m%d() -> %s {\n%s    %s%s%s\n}\n" % (i, ret, lets, manual_head, cons, manual_tail)
    it.manual_src = man
    it.kind = wrap
    it.descr = "%s %s [%s]" % ("tuple struct" if tuple_struct else "struct", mode, "; ".join((f.ident or "_") + ": " + f.ty + " " + f.attr().strip().replace("\n", " ") for f in fields))
    it.alphabet = alphabet_for(fields, mode, i, cmdname)
    if wrap == "command":
        name = "renamed" if mode == "command_named" else kebab(ty)
        it.paths = [[], [name]]
    items.append(it)

def alphabet_for(fields, mode, i, cmdname=None):
    a = ["v", "7", "11", "--zz", "--"]
    for f in fields:
        m = f.manual()
        # every name mentioned in the manual expression
        import re
        for s in re.findall(r"short\('(.)'\)", m):
            a.append("-" + s)
        for l in re.findall(r'long\("([^"]+)"\)', m):
            a.append("--" + l)
            if "argument" in m:
                a.append("--%s=7" % l)
                a.append("--%s=x" % l)
    if mode in ("command", "command_doc3", "command_doc_indented"):
        a.append(cmdname or ("t%d" % i))
    if mode == "command_named":
        a += ["renamed", "r", "m", "other-name"]
    if mode == "options_cargo":
        a.append("pretty")
    seen = []
    for x in a:
        if x not in seen:
            seen.append(x)
    return seen

# ---- enums -----------------------------------------------------------------------------------
def variant_kinds():
    return ["unit", "unit_doc", "unit_short", "unit_long", "named", "tuple", "command_fields", "command_unit", "unit_hidden", "unit_env_short", "unit_env_only", "command_head_foot", "named_adjacent"]

def emit_enum(i, kinds, mode):
    it = Item()
    ty = "T%d" % i
    top_attr = []
    wrap = "parser"
    manual_tail = ""
    if mode == "options":
        top_attr = ["options"]
        wrap = "options"
        manual_tail = ".to_options()"
    top_attr.append("generate(d%d)" % i)
    src = "#[derive(Debug, Clone, PartialEq, Bpaf)]\n#[bpaf(%s)]\npub enum %s {\n" % (", ".join(top_attr), ty)
    alts = []
    lets = ""
    alpha = ["v", "7", "--zz"]
    paths = [[]]
    for k, kind in enumerate(kinds):
        vn = "Var%s%d" % (chr(ord("A") + k), k)
        kb = kebab(vn)
        if kind == "unit":
            src += "    %s,\n" % vn
            lets += '    let alt%d = long(%s).req_flag(%s::%s);\n' % (k, rs_str(kb), ty, vn)
            alpha.append("--" + kb)
        elif kind == "unit_doc":
            src += "    /// help for variant %d\n    %s,\n" % (k, vn)
            lets += '    let alt%d = long(%s).help("help for variant %d").req_flag(%s::%s);\n' % (k, rs_str(kb), k, ty, vn)
            alpha.append("--" + kb)
        elif kind == "unit_short":
            src += "    #[bpaf(short)]\n    %s,\n" % vn
            lets += "    let alt%d = short('%s').req_flag(%s::%s);\n" % (k, kb[0], ty, vn)
            alpha.append("-" + kb[0])
        elif kind == "unit_long":
            src += '    #[bpaf(long("custom-%d"), short(\'%s\'))]\n    %s,\n' % (k, "pqrs"[k], vn)
            lets += '    let alt%d = long("custom-%d").short(\'%s\').req_flag(%s::%s);\n' % (k, k, "pqrs"[k], ty, vn)
            alpha += ["--custom-%d" % k, "-" + "pqrs"[k]]
        elif kind == "unit_hidden":
            src += "    #[bpaf(hide)]\n    %s,\n" % vn
            lets += '    let alt%d = long(%s).req_flag(%s::%s).hide();\n' % (k, rs_str(kb), ty, vn)
            alpha.append("--" + kb)
        elif kind == "named":
            src += "    %s {\n        /// field help\n        name%d: String,\n        flag%d: bool,\n    },\n" % (vn, k, k)
            lets += '    let alt%d = {\n        let name%d = long("name%d").help("field help").argument::<String>("ARG");\n        let flag%d = long("flag%d").switch();\n        construct!(%s::%s { name%d, flag%d })\n    };\n' % (k, k, k, k, k, ty, vn, k, k)
            alpha += ["--name%d=v" % k, "--name%d" % k, "--flag%d" % k]
        elif kind == "tuple":
            src += "    %s(\n        #[bpaf(long(\"tup%d\"))]\n        u32,\n    ),\n" % (vn, k)
            lets += '    let alt%d = {\n        let f0 = long("tup%d").argument::<u32>("ARG");\n        construct!(%s::%s(f0))\n    };\n' % (k, k, ty, vn)
            alpha += ["--tup%d=7" % k, "--tup%d=x" % k]
        elif kind == "command_fields":
            src += "    /// command description %d\n    #[bpaf(command)]\n    %s {\n        #[bpaf(short)]\n        inner%d: bool,\n    },\n" % (k, vn, k)
            lets += '    let alt%d = {\n        let inner%d = short(\'i\').switch();\n        construct!(%s::%s { inner%d })\n    }\n    .to_options()\n    .descr("command description %d")\n    .command(%s);\n' % (k, k, ty, vn, k, k, rs_str(kb))
            alpha += [kb, "-i"]
            paths.append([kb])
        elif kind == "unit_env_short":
            # env plus an explicit name: exactly the names spelled out, no implicit long name
            src += '    /// env and short %d\n    #[bpaf(env("BPAFMC_DERIVE_V%d"), short(\'%s\'))]\n    %s,\n' % (k, k, "wxyz"[k], vn)
            lets += '    let alt%d = env("BPAFMC_DERIVE_V%d").short(\'%s\').help("env and short %d").req_flag(%s::%s);\n' % (k, k, "wxyz"[k], k, ty, vn)
            alpha += ["-" + "wxyz"[k], "--" + kb]
        elif kind == "unit_env_only":
            # env alone: the implicit long name stays
            src += '    #[bpaf(env("BPAFMC_DERIVE_W%d"))]\n    %s,\n' % (k, vn)
            lets += '    let alt%d = env("BPAFMC_DERIVE_W%d").long(%s).req_flag(%s::%s);\n' % (k, k, rs_str(kb), ty, vn)
            alpha.append("--" + kb)
        elif kind == "command_head_foot":
            src += '    #[bpaf(command, header("variant header %d"), footer("variant footer %d"))]\n    %s {\n        #[bpaf(short)]\n        inner%d: bool,\n    },\n' % (k, k, vn, k)
            lets += '    let alt%d = {\n        let inner%d = short(\'i\').switch();\n        construct!(%s::%s { inner%d })\n    }\n    .to_options()\n    .header("variant header %d")\n    .footer("variant footer %d")\n    .command(%s);\n' % (k, k, ty, vn, k, k, k, rs_str(kb))
            alpha += [kb, "-i"]
            paths.append([kb])
        elif kind == "named_adjacent":
            # a variant with fields restricted to one block of neighbouring items
            c = "efgh"[k]
            src += '    #[bpaf(adjacent)]\n    %s {\n        #[bpaf(short(\'%s\'))]\n        exec%d: (),\n        #[bpaf(positional("CMD"))]\n        cmd%d: String,\n    },\n' % (vn, c, k, k)
            lets += '    let alt%d = {\n        let exec%d = short(\'%s\').req_flag(());\n        let cmd%d = positional::<String>("CMD");\n        construct!(%s::%s { exec%d, cmd%d }).adjacent()\n    };\n' % (k, k, c, k, ty, vn, k, k)
            alpha += ["-" + c, "w"]
        elif kind == "command_unit":
            src += '    #[bpaf(command("unitcmd%d"))]\n    %s,\n' % (k, vn)
            lets += '    let alt%d = pure(%s::%s).to_options().command("unitcmd%d");\n' % (k, ty, vn, k)
            alpha.append("unitcmd%d" % k)
            paths.append(["unitcmd%d" % k])
        alts.append("alt%d" % k)
    src += "}\n"
    it.derive_src = src
    ret = "OptionParser<%s>" % ty if wrap == "options" else "impl Parser<%s>" % ty
    body = "construct!([%s])" % ", ".join(alts) if len(alts) > 1 else alts[0]
    it.manual_src = "pub fn m%d() -> %s {\n%s    %s%s\n}\n" % (i, ret, lets, body, manual_tail)
    it.kind = wrap
    seen = []
    for x in alpha:
        if x not in seen:
            seen.append(x)
    it.alphabet = seen
    it.paths = paths
    it.descr = "enum %s %s" % (mode, kinds)
    items.append(it)

# ------------------------------------------------------------------------------------------
# enumerate the family
# ------------------------------------------------------------------------------------------
n = 0
singles = single_field_specs()
step = 1 if tier == "thorough" else 3
for k, f in enumerate(singles):
    if (k + seed) % step != 0:
        continue
    if f.consumer == "positional" or (f.ident is None):
        mode = MODES[(n) % 2]  # parser / options only
    else:
        mode = MODES[n % len(MODES)]
    emit_struct(n, [f], mode)
    n += 1
u = pair_universe()
for a, b in itertools.permutations(range(len(u)), 2):
    fa, fb = u[a], u[b]
    # positional items go last (documented restriction)
    if fa.consumer == "positional" and fb.consumer != "positional":
        continue
    if fa.ident == "rest":
        continue
    if tier == "quick" and (a * 10 + b + seed) % 2 == 1:
        continue
    emit_struct(n, [fa, fb], MODES[n % 4])
    n += 1
# cargo sub-commands with positional items and with named ones
for fields in [[u[8]], [u[0], u[8]], [u[3], u[9]], [u[2]], [u[5], u[4]]]:
    emit_struct(n, fields, "options_cargo")
    n += 1
# tuple structs
for fields in [[Field(None, "String")], [Field(None, "String"), Field(None, "Option<u32>")], [Field(None, "u32"), Field(None, "Vec<String>")], [Field(None, "bool", naming=[("long", "flag")]), Field(None, "String")], [Field(None, "Option<String>", naming=[("short", "o")])]]:
    for mode in ["parser", "options"]:
        emit_struct(n, fields, mode, tuple_struct=True)
        n += 1
# a type-level default with its rendering in the help: doc comment -> group_help sits directly on
# the constructed value, the type-level fallback chain comes after it
for shown in ["display_fallback", "debug_fallback"]:
    it = Item()
    ty = "Tfb%d" % n
    it.derive_src = ('/// window size\n#[derive(Debug, Clone, PartialEq, Bpaf)]\n#[bpaf(fallback(%s { width: 80, height: 25 }), %s, generate(d%d))]\n'
                     'pub struct %s {\n    /// columns\n    width: u32,\n    /// rows\n    height: u32,\n}\n'
                     'impl std::fmt::Display for %s {\n    fn fmt(&self, f: &mut std::fmt::Formatter) -> std::fmt::Result {\n        write!(f, "{}x{}", self.width, self.height)\n    }\n}\n') % (ty, shown, n, ty, ty)
    it.manual_src = ('pub fn m%d() -> impl Parser<%s> {\n    let width = long("width").help("columns").argument::<u32>("ARG");\n    let height = long("height").help("rows").argument::<u32>("ARG");\n'
                     '    construct!(%s { width, height }).group_help("window size").fallback(%s { width: 80, height: 25 }).%s()\n}\n') % (n, ty, ty, ty, shown)
    it.kind = "parser"
    it.descr = "struct parser with doc comment and type-level fallback + %s" % shown
    it.alphabet = ["v", "7", "--zz", "--width=7", "--width=x", "--height=7", "--width", "--height"]
    it.paths = [[]]
    items.append(it)
    n += 1
# a command with a type-level default: the default belongs to the value, not to the command
# (`body.fallback(X).to_options().command(..)`)
for used in ["fallback", "fallback_with"]:
    it = Item()
    ty = "Tcf%d" % n
    fb = "fallback(%s { jobs: 1, fast: false })" % ty if used == "fallback" else "fallback_with(default_%s)" % ty.lower()
    extra = "" if used == "fallback" else "pub fn default_%s() -> Result<%s, String> {\n    Ok(%s { jobs: 1, fast: false })\n}\n" % (ty.lower(), ty, ty)
    it.derive_src = ('#[derive(Debug, Clone, PartialEq, Bpaf)]\n#[bpaf(command("build"), %s, generate(d%d))]\n'
                     'pub struct %s {\n    #[bpaf(long)]\n    jobs: u32,\n    #[bpaf(long)]\n    fast: bool,\n}\n%s') % (fb, n, ty, extra)
    it.manual_src = ('pub fn m%d() -> impl Parser<%s> {\n    let jobs = long("jobs").argument::<u32>("ARG");\n    let fast = long("fast").switch();\n'
                     '    construct!(%s { jobs, fast }).%s.to_options().command("build")\n}\n') % (n, ty, ty, fb)
    it.kind = "parser"
    it.descr = "struct command(\"build\") with a type-level %s" % used
    it.alphabet = ["build", "--jobs=7", "--jobs=x", "--jobs", "7", "--fast", "v"]
    it.paths = [[], ["build"]]
    items.append(it)
    n += 1
# enums: all ordered pairs of variant kinds, some triples
vk = variant_kinds()
for a, b in itertools.product(range(len(vk)), repeat=2):
    if tier == "quick" and (a + b + seed) % 2 == 1:
        continue
    emit_enum(n, [vk[a], vk[b]], MODES[n % 2])
    n += 1
for tr in [("unit", "named", "command_fields"), ("unit_doc", "unit_short", "unit_long"), ("command_unit", "command_fields", "unit"), ("tuple", "named", "unit_hidden")]:
    emit_enum(n, list(tr), "options")
    n += 1
for k in vk:
    emit_enum(n, [k], "options")
    n += 1

# ------------------------------------------------------------------------------------------
# write
# ------------------------------------------------------------------------------------------
with open(out_path, "w") as o:
    o.write("// @generated by /verif/tools/gen_derive.py %s %d - do not edit\n" % (tier, seed))
    o.write("#![allow(dead_code, unused_imports, clippy::all)]\nuse bpaf::*;\n\n")
    o.write("pub fn less_than_ten(v: &u32) -> bool { *v < 10 }\n\n")
    for i, it in enumerate(items):
        o.write(it.derive_src + "\n" + it.manual_src + "\n")
    o.write("pub struct Case {\n    pub id: usize,\n    pub descr: &'static str,\n    pub alphabet: &'static [&'static str],\n    pub paths: &'static [&'static [&'static str]],\n    pub derived: fn(&[std::ffi::OsString]) -> crate::Out,\n    pub manual: fn(&[std::ffi::OsString]) -> crate::Out,\n}\n\n")
    o.write("pub fn cases() -> Vec<Case> {\n    vec![\n")
    for i, it in enumerate(items):
        if it.kind == "options":
            d = "|a| crate::observe(&d%d(), a)" % i
            m = "|a| crate::observe(&m%d(), a)" % i
        else:
            d = "|a| crate::observe(&d%d().to_options(), a)" % i
            m = "|a| crate::observe(&m%d().to_options(), a)" % i
        paths = ", ".join("&[%s]" % ", ".join(rs_str(x) for x in p) for p in it.paths)
        o.write("        Case { id: %d, descr: %s, alphabet: &[%s], paths: &[%s], derived: %s, manual: %s },\n" % (i, rs_str(it.descr), ", ".join(rs_str(x) for x in it.alphabet), paths, d, m))
    o.write("    ]\n}\n")
print("generated %d types" % len(items))
