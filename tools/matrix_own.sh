#!/bin/bash
# tools/matrix_own.sh [seed names...]: every kept seeded change against the quick check of its own
# property (the full cross matrix is tools/matrix.sh).  Meant for `vp run --with-repo`.
HERE=$(cd "$(dirname "${BASH_SOURCE[0]}")/.." && pwd)
cd "$HERE" || exit 2
if [ -n "${VP_RUN_REPO:-}" ]; then
  export REPO=$VP_RUN_REPO
  sed -i "s#path = \"/repo\"#path = \"$VP_RUN_REPO\"#" harness/Cargo.toml derive_family/Cargo.toml
  sed -i "s#/repo/Cargo.lock#$VP_RUN_REPO/Cargo.lock#" harness/src/checks/c17.rs
fi
./check build || exit 2
SEEDS=${@:-$(ls seeded | grep -E '^C[0-9]+_[0-9]+$')}
for s in $SEEDS; do
  tools/seeded.sh seeded/$s ${s%_*}
done
