//! Running the real parser under `catch_unwind` and normalising the outcome.
use crate::def::*;
use bpaf::*;
use serde::{Deserialize, Serialize};
use std::cell::RefCell;

#[derive(Clone, Debug, PartialEq, Eq, Hash, Serialize, Deserialize)]
pub enum Outcome {
    Value(Val),
    Stdout { text: String, full: bool },
    Stderr(String),
    Completion(String),
    Panic(String),
}
impl Outcome {
    pub fn class(&self) -> &'static str {
        match self {
            Outcome::Value(_) => "value",
            Outcome::Stdout { .. } => "stdout",
            Outcome::Stderr(_) => "stderr",
            Outcome::Completion(_) => "completion",
            Outcome::Panic(_) => "panic",
        }
    }
    pub fn brief(&self) -> String {
        let s = match self {
            Outcome::Value(v) => format!("value {:?}", v),
            Outcome::Stdout { text, full } => format!("stdout(full={}) {:?}", full, text),
            Outcome::Stderr(t) => format!("stderr {:?}", t),
            Outcome::Completion(t) => format!("completion {:?}", t),
            Outcome::Panic(t) => format!("panic {:?}", t),
        };
        s.chars().take(600).collect()
    }
}

thread_local! {
    static LAST_PANIC: RefCell<String> = RefCell::new(String::new());
}

pub fn install_panic_hook() {
    std::panic::set_hook(Box::new(|info| {
        let loc = info.location().map(|l| format!("{}:{}", l.file(), l.line())).unwrap_or_default();
        let msg = if let Some(s) = info.payload().downcast_ref::<&str>() {
            s.to_string()
        } else if let Some(s) = info.payload().downcast_ref::<String>() {
            s.clone()
        } else {
            "<non-string panic>".to_string()
        };
        if std::env::var_os("BPAFMC_LOUD_PANIC").is_some() {
            // debugging aid: panics that nothing catches end a worker silently otherwise
            eprintln!("panic: {} at {}", msg, loc);
        }
        LAST_PANIC.with(|p| *p.borrow_mut() = format!("{} at {}", msg, loc));
    }));
}

pub fn catch<T>(f: impl FnOnce() -> T) -> Result<T, String> {
    match std::panic::catch_unwind(std::panic::AssertUnwindSafe(f)) {
        Ok(v) => Ok(v),
        Err(_) => Err(LAST_PANIC.with(|p| p.borrow().clone())),
    }
}

pub fn normalise(r: Result<Result<Val, ParseFailure>, String>) -> Outcome {
    match r {
        Err(p) => Outcome::Panic(p),
        Ok(Ok(v)) => Outcome::Value(v),
        Ok(Err(ParseFailure::Stdout(d, full))) => match catch(|| d.monochrome(full)) {
            Ok(text) => Outcome::Stdout { text, full },
            Err(p) => Outcome::Panic(p),
        },
        Ok(Err(ParseFailure::Stderr(d))) => match catch(|| d.monochrome(true)) {
            Ok(text) => Outcome::Stderr(text),
            Err(p) => Outcome::Panic(p),
        },
        Ok(Err(ParseFailure::Completion(s))) => Outcome::Completion(s),
    }
}

/// plain parse of a byte-string vector
pub fn run(p: &OptionParser<Val>, argv: &[Tok]) -> Outcome {
    let os = argv_os(argv);
    normalise(catch(|| p.run_inner(Args::from(os.as_slice()))))
}

/// parse with an application name
pub fn run_named(p: &OptionParser<Val>, argv: &[Tok], name: &str) -> Outcome {
    let os = argv_os(argv);
    normalise(catch(|| p.run_inner(Args::from(os.as_slice()).set_name(name))))
}

#[cfg(any(feature = "full", feature = "ac"))]
pub fn run_comp(p: &OptionParser<Val>, argv: &[Tok], rev: usize, name: Option<&str>) -> Outcome {
    let os = argv_os(argv);
    normalise(catch(|| {
        let mut a = Args::from(os.as_slice()).set_comp(rev);
        if let Some(n) = name {
            a = a.set_name(n);
        }
        p.run_inner(a)
    }))
}

/// raw result (keeps the Doc) for width rendering
pub fn run_raw(p: &OptionParser<Val>, argv: &[Tok]) -> Result<Result<Val, ParseFailure>, String> {
    let os = argv_os(argv);
    catch(|| p.run_inner(Args::from(os.as_slice())))
}

pub fn build_checked(o: &Opts) -> Result<OptionParser<Val>, String> {
    catch(|| build_opts(o))
}
