//! General (non-conventional) shapes: a name table for arbitrary definitions, a segmenter that
//! cuts an argument vector into whole occurrences, linear extensions (order-preserving
//! permutations) and the shape family used by C03 / C05 / C06 / C10.
use crate::conv::{lex, Ev, Lex};
use crate::def::*;
use std::collections::BTreeMap;

#[derive(Clone, Debug)]
pub struct NameInfo {
    /// index of the top-level field that owns the name
    pub field: usize,
    pub is_arg: bool,
    /// under many/some/collect/count/last
    pub multi: bool,
    pub hidden: bool,
    pub ty: Ty,
    pub transformed: bool,
}

#[derive(Clone, Debug, Default)]
pub struct Table {
    pub shorts: BTreeMap<char, NameInfo>,
    pub longs: BTreeMap<String, NameInfo>,
    pub cmds: Vec<String>,
    pub flag_shorts: Vec<char>,
    pub arg_shorts: Vec<char>,
    /// positional parsers at this level: (under repetition?, inside an alternative?)
    pub positionals: Vec<(bool, bool)>,
    pub has_adjacent: bool,
}

fn collect(p: &P, field: usize, multi: bool, hidden: bool, in_alt: bool, transformed: bool, t: &mut Table, top: bool) {
    let mut add = |n: &Names, is_arg: bool, ty: Ty, t: &mut Table| {
        let info = NameInfo { field, is_arg, multi, hidden, ty, transformed };
        for s in &n.shorts {
            if top {
                t.shorts.insert(*s, info.clone());
            }
            if is_arg {
                t.arg_shorts.push(*s)
            } else {
                t.flag_shorts.push(*s)
            }
        }
        if top {
            for l in &n.longs {
                t.longs.insert(l.clone(), info.clone());
            }
        }
    };
    match p {
        P::Switch(n) | P::ReqFlag(n) | P::Flag(n) => add(n, false, Ty::Os, t),
        P::Arg { names, ty, .. } => add(names, true, *ty, t),
        P::Pos { .. } => {
            if top {
                t.positionals.push((multi, in_alt))
            }
        }
        P::Cmd { name, shorts, longs, inner, .. } => {
            if top {
                t.cmds.push(name.clone());
                t.cmds.extend(longs.iter().cloned());
                t.cmds.extend(shorts.iter().map(|c| c.to_string()));
            }
            // short names below a command still take part in cluster disambiguation
            collect(&inner.p, field, multi, hidden, in_alt, transformed, t, false);
        }
        P::Seq(v) => v.iter().for_each(|x| collect(x, field, multi, hidden, in_alt, transformed, t, top)),
        P::Adj(v) => {
            t.has_adjacent = true;
            v.iter().for_each(|x| collect(x, field, multi, hidden, in_alt, transformed, t, top))
        }
        P::Alt(v) | P::Choice(v) => v.iter().for_each(|x| collect(x, field, multi, hidden, true, transformed, t, top)),
        P::Many(x, _) | P::Some_(x, _) | P::Collect(x, _) | P::Count(x) | P::Last(x) => collect(x, field, true, hidden, in_alt, transformed, t, top),
        P::Hide(x) => collect(x, field, multi, true, in_alt, transformed, t, top),
        P::Parse(x, _) | P::Guard(x, _) => collect(x, field, multi, hidden, in_alt, true, t, top),
        P::Optional(x, _) | P::Fallback(x, _, _) | P::FallbackWith(x, _) | P::Map(x, _) | P::HideUsage(x) | P::CustomUsage(x, _) | P::GroupHelp(x, _) | P::WithGroupHelp(x, _) | P::Complete(x, _, _) | P::CompleteShell(x, _) => collect(x, field, multi, hidden, in_alt, transformed, t, top),
        P::Pure(_) | P::PureWith(_) | P::Fail(_) | P::LiteralAnywhere(_) | P::AnyKv { .. } => {}
    }
}

/// name table of the top level of `o` (fields = members of the top `Seq`)
pub fn table(o: &Opts) -> Table {
    let mut t = Table::default();
    match &o.p {
        P::Seq(fields) => {
            for (i, f) in fields.iter().enumerate() {
                collect(f, i, false, false, false, false, &mut t, true);
            }
        }
        other => collect(other, 0, false, false, false, false, &mut t, true),
    }
    t.flag_shorts.push('h');
    t.flag_shorts.push('V');
    t
}

/// like `table`, but a "field" is a leaf parser (one name set) rather than a member of the top
/// `Seq`: named items of one group, or of two exclusive alternatives, feed different fields of
/// the result and may be permuted; the members of an alternative under a repetition feed one
/// list and keep their order; a name declared in several branches is one field
pub fn fine_table(o: &Opts) -> Table {
    let mut t = table(o);
    let mut ids: BTreeMap<String, usize> = BTreeMap::new();
    let mut counter = 0usize;
    fn assign(p: &P, multi: bool, forced: Option<usize>, ids: &mut BTreeMap<String, usize>, counter: &mut usize) {
        let mut leaf = |n: &Names, ids: &mut BTreeMap<String, usize>, counter: &mut usize| {
            let keys: Vec<String> = n.shorts.iter().map(|c| format!("-{}", c)).chain(n.longs.iter().map(|l| format!("--{}", l))).collect();
            let id = forced.or_else(|| keys.iter().find_map(|k| ids.get(k).copied())).unwrap_or_else(|| {
                *counter += 1;
                *counter
            });
            for k in keys {
                ids.entry(k).or_insert(id);
            }
        };
        match p {
            P::Switch(n) | P::ReqFlag(n) | P::Flag(n) => leaf(n, ids, counter),
            P::Arg { names, .. } => leaf(names, ids, counter),
            P::Cmd { .. } => {}
            P::Many(x, _) | P::Some_(x, _) | P::Collect(x, _) | P::Count(x) | P::Last(x) => assign(x, true, forced, ids, counter),
            P::Alt(v) | P::Choice(v) if multi && forced.is_none() => {
                *counter += 1;
                let id = *counter;
                v.iter().for_each(|x| assign(x, multi, Some(id), ids, counter));
            }
            _ => p.children(&mut |c| assign(c, multi, forced, ids, counter)),
        }
    }
    assign(&o.p, false, None, &mut ids, &mut counter);
    for (c, info) in t.shorts.iter_mut() {
        if let Some(id) = ids.get(&format!("-{}", c)) {
            info.field = 1000 + *id;
        }
    }
    for (l, info) in t.longs.iter_mut() {
        if let Some(id) = ids.get(&format!("--{}", l)) {
            info.field = 1000 + *id;
        }
    }
    t
}

#[derive(Clone, Debug, PartialEq, Eq)]
pub enum BlockKind {
    Flag,
    Arg,
    Word,
    /// an undeclared `-x` / `--name` item: not a named occurrence of the level; it keeps its
    /// place among the words while the declared occurrences move around it
    Foreign,
}
#[derive(Clone, Debug)]
pub struct Block {
    pub kind: BlockKind,
    /// token range in argv
    pub start: usize,
    pub end: usize,
    /// fields fed (several for a cluster)
    pub fields: Vec<usize>,
    /// value bytes carried (argument value or the word itself)
    pub value: Option<Tok>,
    pub multi: bool,
    pub ty: Ty,
    pub transformed: bool,
}

#[derive(Clone, Debug)]
pub struct Segmented {
    /// movable blocks, in line order
    pub blocks: Vec<Block>,
    /// index of the first token of the immovable rest (command name, or `--`), argv.len() if none
    pub fixed_from: usize,
    /// the fixed rest starts with a command name (its words belong to another level)
    pub rest_is_cmd: bool,
}

/// cut the vector into whole occurrences; None when the line is not a sequence of whole
/// occurrences (unknown names, argument without value, flag with a value, unspecified lexing)
pub fn segment(t: &Table, argv: &[Tok]) -> Option<Segmented> {
    // boundary: first `--`
    let dd = argv.iter().position(|x| x.0 == b"--").unwrap_or(argv.len());
    let (evs, src) = match lex(&argv[..dd], &t.flag_shorts, &t.arg_shorts) {
        Lex::Ok(e, s) => (e, s),
        Lex::Unspec(_) => return None,
    };
    let mut blocks: Vec<Block> = vec![];
    let mut i = 0;
    let mut fixed_from = dd;
    let mut rest_is_cmd = false;
    while i < evs.len() {
        let ti = src[i];
        match &evs[i] {
            Ev::Word(w) => {
                if let Some(s) = w.utf8() {
                    if t.cmds.iter().any(|c| c == s) {
                        fixed_from = ti;
                        rest_is_cmd = true;
                        break;
                    }
                }
                blocks.push(Block { kind: BlockKind::Word, start: ti, end: ti + 1, fields: vec![], value: Some(w.clone()), multi: false, ty: Ty::Os, transformed: false });
                i += 1;
            }
            Ev::PosWord(_) => unreachable!("lexing stops before --"),
            e => {
                let (found, inline) = match e {
                    Ev::Long(n, v) => (t.longs.get(n.as_str()), v.clone()),
                    Ev::Short(c, v) => (t.shorts.get(c), v.clone()),
                    _ => unreachable!(),
                };
                let info = match found {
                    Some(i) => i,
                    None => {
                        // undeclared name: a foreign item of its own (not inside a cluster, no value)
                        if inline.is_some() || (i > 0 && src[i - 1] == ti) || (i + 1 < evs.len() && src[i + 1] == ti) {
                            return None;
                        }
                        blocks.push(Block { kind: BlockKind::Foreign, start: ti, end: ti + 1, fields: vec![], value: None, multi: false, ty: Ty::Os, transformed: false });
                        i += 1;
                        continue;
                    }
                };
                let mut end = ti + 1;
                let mut value = None;
                let mut consumed = 1;
                if info.is_arg {
                    match inline {
                        Some(v) => value = Some(v),
                        None => match evs.get(i + 1) {
                            Some(Ev::Word(w)) if src[i + 1] == ti + 1 => {
                                value = Some(w.clone());
                                end = ti + 2;
                                consumed = 2;
                            }
                            _ => return None,
                        },
                    }
                } else if inline.is_some() {
                    return None;
                }
                // merge with the previous block when it came from the same token (cluster)
                match blocks.last_mut() {
                    Some(b) if b.start == ti && b.kind != BlockKind::Word && b.kind != BlockKind::Foreign => {
                        b.fields.push(info.field);
                        b.end = end;
                        b.multi &= info.multi;
                        if info.is_arg {
                            b.kind = BlockKind::Arg;
                            b.value = value;
                            b.ty = info.ty;
                            b.transformed = info.transformed;
                        }
                    }
                    _ => blocks.push(Block { kind: if info.is_arg { BlockKind::Arg } else { BlockKind::Flag }, start: ti, end, fields: vec![info.field], value, multi: info.multi, ty: info.ty, transformed: info.transformed }),
                }
                i += consumed;
            }
        }
    }
    Some(Segmented { blocks, fixed_from, rest_is_cmd })
}

/// all orderings of the blocks that keep (a) the relative order of word blocks and (b) the
/// relative order of named blocks feeding a common field; calls `f` with block index orders
pub fn orderings(blocks: &[Block], f: &mut dyn FnMut(&[usize])) {
    let n = blocks.len();
    let conflict = |a: &Block, b: &Block| -> bool {
        let wordish = |k: &BlockKind| matches!(k, BlockKind::Word | BlockKind::Foreign);
        if wordish(&a.kind) && wordish(&b.kind) {
            return true;
        }
        a.fields.iter().any(|x| b.fields.contains(x))
    };
    // preds[j] = earlier blocks that must stay before j
    let preds: Vec<Vec<usize>> = (0..n).map(|j| (0..j).filter(|i| conflict(&blocks[*i], &blocks[j])).collect()).collect();
    let mut placed = vec![false; n];
    let mut order = Vec::with_capacity(n);
    fn go(n: usize, preds: &[Vec<usize>], placed: &mut Vec<bool>, order: &mut Vec<usize>, f: &mut dyn FnMut(&[usize])) {
        if order.len() == n {
            f(order);
            return;
        }
        for j in 0..n {
            if !placed[j] && preds[j].iter().all(|p| placed[*p]) {
                placed[j] = true;
                order.push(j);
                go(n, preds, placed, order, f);
                order.pop();
                placed[j] = false;
            }
        }
    }
    go(n, &preds, &mut placed, &mut order, f);
}

pub fn apply_order(argv: &[Tok], seg: &Segmented, order: &[usize]) -> Vec<Tok> {
    let mut out = Vec::with_capacity(argv.len());
    for j in order {
        let b = &seg.blocks[*j];
        out.extend_from_slice(&argv[b.start..b.end]);
    }
    out.extend_from_slice(&argv[seg.fixed_from..]);
    out
}

// ------------------------------------------------------------------------------------------
// the shape family
// ------------------------------------------------------------------------------------------
pub const FIELD_KINDS: usize = 12;

fn nm(slot: usize, seed: u64) -> Names {
    let pool = crate::fam::POOL;
    let (s, l) = pool[(slot + seed as usize) % pool.len()];
    Names::both(s, l)
}

/// field kind k using name slots `base`, `base+1`
pub fn field(k: usize, base: usize, seed: u64) -> P {
    let a = nm(base, seed);
    let b = nm(base + 1, seed);
    let arg = |n: Names| P::arg(n, Ty::Os);
    match k {
        0 => P::Switch(a),
        1 => arg(a),
        2 => arg(a).many(),
        3 => P::Alt(vec![P::Map(P::ReqFlag(a).bx(), "x".into()), P::Map(P::ReqFlag(b).bx(), "y".into())]),
        4 => P::Alt(vec![P::Map(P::ReqFlag(a).bx(), "x".into()), P::Map(arg(b).bx(), "y".into())]).many(),
        5 => P::Seq(vec![arg(a), arg(b)]).opt(),
        6 => P::Seq(vec![arg(a), P::Switch(b)]).many(),
        7 => arg(a).fallback(Val::s("DEF")).hide(),
        8 => P::Guard(P::arg(a, Ty::U32).bx(), GuardK::Lt10),
        9 => P::Count(P::ReqFlag(a).bx()),
        10 => P::Parse(arg(a).bx(), ParseK::NoX).fallback(Val::s("DEF")),
        11 => P::Alt(vec![arg(a), arg(b).fallback(Val::s("DEFB"))]).opt(),
        _ => unreachable!(),
    }
}

pub fn shape_tails(seed: u64) -> Vec<Vec<P>> {
    let sub = Opts::new(P::Seq(vec![P::Switch(nm(6, seed)), P::pos(Ty::Os).opt()]));
    vec![vec![], vec![P::pos(Ty::Os).opt()], vec![P::pos(Ty::Os).many()], vec![P::cmd("cmd", sub).opt()]]
}

/// all ordered tuples of `n` distinct field kinds x tails
pub fn shapes(n: usize, seed: u64) -> Vec<Opts> {
    let mut out = vec![];
    let tails = shape_tails(seed);
    let mut tuples: Vec<Vec<usize>> = vec![vec![]];
    for _ in 0..n {
        let mut next = vec![];
        for t in &tuples {
            for k in 0..FIELD_KINDS {
                if !t.contains(&k) {
                    let mut t2 = t.clone();
                    t2.push(k);
                    next.push(t2);
                }
            }
        }
        tuples = next;
    }
    for t in &tuples {
        for tail in &tails {
            let mut fields: Vec<P> = t.iter().enumerate().map(|(i, k)| field(*k, i * 2, seed)).collect();
            fields.extend(tail.iter().cloned());
            out.push(Opts::new(P::Seq(fields)));
        }
    }
    out
}

/// token alphabet for a general shape
pub fn shape_alphabet(o: &Opts) -> Vec<Tok> {
    let mut out = toks(&["v", "w", "--", "-z"]);
    let mut has_u32 = false;
    let mut has_nox = false;
    fn walk(p: &P, out: &mut Vec<Tok>, has_u32: &mut bool, has_nox: &mut bool) {
        match p {
            P::Switch(n) | P::ReqFlag(n) | P::Flag(n) => {
                if let Some(s) = n.shorts.first() {
                    out.push(Tok::s(&format!("-{}", s)));
                }
                if let Some(l) = n.longs.first() {
                    out.push(Tok::s(&format!("--{}", l)));
                }
            }
            P::Arg { names, ty, .. } => {
                if *ty == Ty::U32 {
                    *has_u32 = true;
                }
                if let Some(s) = names.shorts.first() {
                    out.push(Tok::s(&format!("-{}", s)));
                }
                if let Some(l) = names.longs.first() {
                    out.push(Tok::s(&format!("--{}=v", l)));
                }
            }
            P::Cmd { name, inner, .. } => {
                out.push(Tok::s(name));
                walk(&inner.p, out, has_u32, has_nox);
            }
            P::Parse(x, ParseK::NoX) => {
                *has_nox = true;
                walk(x, out, has_u32, has_nox)
            }
            _ => p.children(&mut |c| walk(c, out, has_u32, has_nox)),
        }
    }
    walk(&o.p, &mut out, &mut has_u32, &mut has_nox);
    if has_u32 {
        out.push(Tok::s("7"));
        out.push(Tok::s("11"));
    }
    if has_nox {
        out.push(Tok::s("x"));
    }
    out.sort();
    out.dedup();
    out.sort_by(|a, b| (a.0.len(), &a.0).cmp(&(b.0.len(), &b.0)));
    out
}
