//! Definition families of the conventional fragment (shared by C01, C03, C05, C08, C10, C20 …)
use crate::conv::*;
use crate::def::*;

pub const POOL: [(char, &str); 8] = [('a', "alpha"), ('b', "beta"), ('c', "gamma"), ('d', "delta"), ('e', "echo"), ('f', "fox"), ('g', "golf"), ('k', "kilo")];
pub const ALIAS: [(char, &str); 8] = [('A', "alf"), ('B', "bet"), ('C', "gam"), ('D', "del"), ('E', "ech"), ('F', "fx"), ('G', "glf"), ('K', "kil")];

/// naming styles: short only, long only, both, both + hidden aliases
pub fn styled(slot: usize, style: usize, seed: u64) -> Names {
    // slots 0..3 name items of the top level, 4..7 items of deeper levels: rotating inside the
    // two halves keeps names distinct across levels whatever seeds the callers combine
    let i = if slot < 4 { (slot + seed as usize) % 4 } else { 4 + (slot - 4 + seed as usize) % 4 };
    let (s, l) = POOL[i];
    let (sa, la) = ALIAS[i];
    match style % 4 {
        0 => Names::both(s, l),
        1 => Names::short(s),
        2 => Names::long(l),
        _ => Names::both(s, l).alias_s(sa).alias_l(la),
    }
}

pub fn named(slot: usize, kind: Kind, style: usize, seed: u64) -> Named {
    Named { names: styled(slot, style, seed), kind, hidden: false, ty: Ty::Os, adjacent: false, guarded: false }
}

pub fn pos(kinds: &[PosKind]) -> Tail {
    Tail::Pos(kinds.iter().map(|k| PosItem { kind: *k, strict: Strict::Any }).collect())
}

pub fn pos_tails() -> Vec<Tail> {
    use PosKind::*;
    vec![pos(&[Req]), pos(&[Opt]), pos(&[Many]), pos(&[Some]), pos(&[Req, Opt]), pos(&[Req, Many]), pos(&[Req, Req, Opt])]
}

pub fn leaf(named: Vec<Named>, tail: Tail) -> Level {
    Level { named, tail, version: None, usage_fallback: false }
}

/// sub-levels used under a command name (slots 4.. so that names differ from the parent's)
pub fn sub_levels(seed: u64, depth3: bool) -> Vec<Level> {
    let mut v = vec![];
    for k in [Kind::Switch, Kind::ArgReq, Kind::ArgMany] {
        for t in [Tail::None, pos(&[PosKind::Opt])] {
            v.push(leaf(vec![named(4, k, 0, seed)], t));
        }
    }
    if depth3 {
        // a third level below the second
        let inner = leaf(vec![named(6, Kind::ArgOpt, 0, seed)], Tail::None);
        v.push(leaf(vec![named(4, Kind::Switch, 0, seed)], Tail::Cmds { cmds: vec![CmdDef { name: "deep".into(), shorts: vec![], longs: vec![], level: inner.clone() }], wrap: CmdWrap::Required }));
        v.push(leaf(vec![], Tail::Cmds { cmds: vec![CmdDef { name: "deep".into(), shorts: vec![], longs: vec![], level: inner }], wrap: CmdWrap::Optional }));
    }
    v
}

pub fn cmd_tails(seed: u64, depth3: bool, aliases: bool) -> Vec<Tail> {
    let mut t = vec![];
    for (i, s) in sub_levels(seed, depth3).into_iter().enumerate() {
        let c = CmdDef { name: "cmd".into(), shorts: if aliases && i % 2 == 0 { vec!['m'] } else { vec![] }, longs: if aliases && i % 3 == 0 { vec!["command".into()] } else { vec![] }, level: s.clone() };
        let other = CmdDef { name: "other".into(), shorts: vec![], longs: vec![], level: leaf(vec![], Tail::None) };
        t.push(Tail::Cmds { cmds: vec![c.clone()], wrap: CmdWrap::Required });
        t.push(Tail::Cmds { cmds: vec![c.clone(), other.clone()], wrap: CmdWrap::Optional });
        if i % 2 == 1 {
            t.push(Tail::Cmds { cmds: vec![other.clone(), c.clone()], wrap: CmdWrap::Fallback });
        }
        if i % 3 == 0 {
            // three alternatives: two commands and a default
            t.push(Tail::Cmds { cmds: vec![c.clone(), other.clone()], wrap: CmdWrap::PureAlt });
        }
        if i % 3 == 1 {
            // the default first, the commands after it
            t.push(Tail::Cmds { cmds: vec![c, other], wrap: CmdWrap::PureFirst });
        }
    }
    t
}

/// all ordered kind tuples of length 0..=n over `kinds`
pub fn kind_tuples(kinds: &[Kind], n: usize) -> Vec<Vec<Kind>> {
    let mut out = vec![vec![]];
    let mut last: Vec<Vec<Kind>> = vec![vec![]];
    for _ in 0..n {
        let mut next = vec![];
        for t in &last {
            for k in kinds {
                let mut t2 = t.clone();
                t2.push(*k);
                next.push(t2);
            }
        }
        out.extend(next.iter().cloned());
        last = next;
    }
    out
}

/// the conventional family: every ordered tuple of ≤ n kinds × tails; naming styles rotate
pub fn conventional(n: usize, tails: &[Tail], seed: u64) -> Vec<Level> {
    let mut out = vec![];
    let mut j = 0usize;
    for t in tails {
        for ks in kind_tuples(&KINDS, n) {
            let named: Vec<Named> = ks.iter().enumerate().map(|(i, k)| named(i, *k, mix(j as u64, i as u64, seed) as usize, seed)).collect();
            out.push(leaf(named, t.clone()));
            j += 1;
        }
    }
    out
}

/// small deterministic mixer (style rotation)
pub fn mix(a: u64, b: u64, c: u64) -> u64 {
    let mut x = a.wrapping_mul(0x9E3779B97F4A7C15) ^ b.wrapping_mul(0xC2B2AE3D27D4EB4F) ^ c.wrapping_mul(0x165667B19E3779F9);
    x ^= x >> 29;
    x = x.wrapping_mul(0xBF58476D1CE4E5B9);
    x ^= x >> 32;
    x
}
