//! Exhaustive enumerators.
use crate::def::Tok;

/// Depth-first walk of the token tree: calls `f` on every vector in Σ^{≤max_len} (the empty
/// vector first).  `f` returns false to prune the subtree below a vector.
pub fn tree(alpha: &[Tok], max_len: usize, f: &mut dyn FnMut(&[Tok]) -> bool) {
    let mut cur: Vec<Tok> = Vec::with_capacity(max_len);
    fn go(alpha: &[Tok], max_len: usize, cur: &mut Vec<Tok>, f: &mut dyn FnMut(&[Tok]) -> bool) {
        if !f(cur) {
            return;
        }
        if cur.len() == max_len {
            return;
        }
        for t in alpha {
            cur.push(t.clone());
            go(alpha, max_len, cur, f);
            cur.pop();
        }
    }
    go(alpha, max_len, &mut cur, f);
}

/// number of nodes of the full tree
pub fn tree_size(k: usize, l: usize) -> u64 {
    let mut n = 0u64;
    let mut p = 1u64;
    for _ in 0..=l {
        n += p;
        p = p.saturating_mul(k as u64);
    }
    n
}

/// all permutations of 0..n (Heap's algorithm), n small
pub fn permutations(n: usize, f: &mut dyn FnMut(&[usize])) {
    let mut a: Vec<usize> = (0..n).collect();
    fn go(k: usize, a: &mut Vec<usize>, f: &mut dyn FnMut(&[usize])) {
        if k <= 1 {
            f(a);
            return;
        }
        for i in 0..k {
            go(k - 1, a, f);
            if k % 2 == 0 {
                a.swap(i, k - 1);
            } else {
                a.swap(0, k - 1);
            }
        }
    }
    go(n, &mut a, f);
}

/// cartesian product of choices: calls f with one index per slot
pub fn product(sizes: &[usize], f: &mut dyn FnMut(&[usize])) {
    if sizes.iter().any(|s| *s == 0) {
        return;
    }
    let mut idx = vec![0usize; sizes.len()];
    loop {
        f(&idx);
        let mut k = sizes.len();
        loop {
            if k == 0 {
                return;
            }
            k -= 1;
            if idx[k] + 1 < sizes[k] {
                idx[k] += 1;
                for x in idx[k + 1..].iter_mut() {
                    *x = 0;
                }
                break;
            }
        }
    }
}
