pub mod checks;
pub mod conv;
pub mod def;
pub mod explore;
pub mod fam;
pub mod run;
pub mod sup;

pub fn all_checks() -> Vec<&'static dyn sup::Check> {
    vec![&checks::c01::C01]
}
