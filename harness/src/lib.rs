pub mod checks;
pub mod conv;
pub mod def;
pub mod docfam;
pub mod explore;
pub mod fam;
pub mod run;
pub mod sent;
pub mod shape;
pub mod sup;
pub mod vis;

pub fn all_checks() -> Vec<&'static dyn sup::Check> {
    #[allow(unused_mut)]
    let mut v: Vec<&'static dyn sup::Check> = vec![&checks::c01::C01, &checks::c02::C02, &checks::c03::C03, &checks::c04::C04, &checks::c05::C05, &checks::c06::C06, &checks::c07::C07, &checks::c08::C08, &checks::c09::C09, &checks::c10::C10, &checks::c11::C11, &checks::c12::C12, &checks::c13::C13, &checks::c16::C16, &checks::c17::C17, &checks::c18::C18, &checks::c19::C19, &checks::c20::C20];
    #[cfg(feature = "full")]
    v.push(&checks::c14::C14);
    #[cfg(feature = "full")]
    v.push(&checks::c15::C15);
    v
}
