//! Independent visibility calculator: which items a user can see at a command level,
//! computed from the definition AST alone (shared by C12, C14, C16).
use crate::def::*;

#[derive(Clone, Debug, PartialEq, Eq)]
pub enum Row {
    Named { short: Option<char>, long: Option<String>, metavar: Option<String>, help: Option<String>, env: Option<String>, is_arg: bool, in_adjacent: bool },
    Pos { metavar: String, help: Option<String>, in_adjacent: bool },
    Cmd { name: String, short: Option<char>, help: Option<String>, inner: Box<Opts> },
}
impl Row {
    /// the definition term as the help prints it
    pub fn term(&self) -> String {
        match self {
            Row::Named { short, long, metavar, .. } => {
                let mut t = String::new();
                if let Some(s) = short {
                    t.push_str(&format!("-{}", s));
                }
                if let Some(l) = long {
                    if !t.is_empty() {
                        t.push_str(", ");
                    }
                    t.push_str(&format!("--{}", l));
                }
                if let Some(m) = metavar {
                    t.push_str(&format!("={}", m));
                }
                t
            }
            Row::Pos { metavar, .. } => metavar.clone(),
            Row::Cmd { name, short, .. } => match short {
                Some(s) => format!("{}, {}", name, s),
                None => name.clone(),
            },
        }
    }
    pub fn help(&self) -> Option<&String> {
        match self {
            Row::Named { help, .. } | Row::Pos { help, .. } | Row::Cmd { help, .. } => help.as_ref(),
        }
    }
}

#[derive(Default, Debug, Clone)]
pub struct Visible {
    pub rows: Vec<Row>,
    /// tokens that must never be shown: names of hidden items, secondary alias names
    pub forbidden: Vec<String>,
}

/// first paragraph of a help text, as the short help shows it (line breaks become spaces)
pub fn first_paragraph(d: &DocSpec) -> String {
    let flat = d.flat();
    let para = flat.split("\n\n").next().unwrap_or("");
    para.split_whitespace().collect::<Vec<_>>().join(" ")
}

fn names_row(n: &Names, metavar: Option<&str>, hidden: bool, in_adj: bool, v: &mut Visible) {
    let first_s = n.shorts.first().copied();
    let first_l = n.longs.first().cloned();
    if hidden {
        for s in &n.shorts {
            v.forbidden.push(format!("-{}", s));
        }
        for l in &n.longs {
            v.forbidden.push(format!("--{}", l));
        }
        return;
    }
    for s in n.shorts.iter().skip(1) {
        v.forbidden.push(format!("-{}", s));
    }
    for l in n.longs.iter().skip(1) {
        v.forbidden.push(format!("--{}", l));
    }
    if first_s.is_none() && first_l.is_none() {
        return; // env only: nothing to show
    }
    v.rows.push(Row::Named { short: first_s, long: first_l, metavar: metavar.map(String::from), help: n.help.as_ref().map(first_paragraph), env: n.envs.first().cloned(), is_arg: metavar.is_some(), in_adjacent: in_adj });
}

fn walk(p: &P, hidden: bool, in_adj: bool, v: &mut Visible) {
    match p {
        P::Switch(n) | P::ReqFlag(n) | P::Flag(n) => names_row(n, None, hidden, in_adj, v),
        P::Arg { names, metavar, .. } => names_row(names, Some(metavar), hidden, in_adj, v),
        P::Pos { metavar, help, .. } | P::AnyKv { metavar, help, .. } => {
            if !hidden {
                v.rows.push(Row::Pos { metavar: metavar.clone(), help: help.as_ref().map(first_paragraph), in_adjacent: in_adj });
            }
        }
        P::Cmd { name, shorts, longs, inner, help, .. } => {
            if hidden {
                v.forbidden.push(name.clone());
            } else {
                let h = match help {
                    Some(h) => Some(first_paragraph(h)),
                    None => inner.cfg.descr.as_ref().map(|d| {
                        let flat = d.flat();
                        flat.lines().next().unwrap_or("").split_whitespace().collect::<Vec<_>>().join(" ")
                    }),
                };
                v.rows.push(Row::Cmd { name: name.clone(), short: shorts.first().copied(), help: h.filter(|s| !s.is_empty()), inner: inner.clone() });
                for l in longs {
                    v.forbidden.push(l.clone());
                }
            }
        }
        P::Hide(x) => walk(x, true, in_adj, v),
        P::Adj(xs) => xs.iter().for_each(|x| walk(x, hidden, true, v)),
        _ => p.children(&mut |c| walk(c, hidden, in_adj, v)),
    }
}

/// what is visible at the level described by `o` (does not descend into commands)
pub fn visible(o: &Opts) -> Visible {
    let mut v = Visible::default();
    // P::children descends into Cmd inner; handle Cmd before recursing
    fn top(p: &P, hidden: bool, in_adj: bool, v: &mut Visible) {
        match p {
            P::Cmd { .. } => walk(p, hidden, in_adj, v),
            P::Hide(x) => top(x, true, in_adj, v),
            P::Adj(xs) => xs.iter().for_each(|x| top(x, hidden, true, v)),
            P::Switch(_) | P::ReqFlag(_) | P::Flag(_) | P::Arg { .. } | P::Pos { .. } | P::AnyKv { .. } => walk(p, hidden, in_adj, v),
            _ => p.children(&mut |c| top(c, hidden, in_adj, v)),
        }
    }
    top(&o.p, false, false, &mut v);
    v
}

/// all command paths reachable through visible commands: (path of names, level definition)
pub fn levels(o: &Opts) -> Vec<(Vec<String>, Opts)> {
    let mut out = vec![(vec![], o.clone())];
    fn go(o: &Opts, path: &mut Vec<String>, out: &mut Vec<(Vec<String>, Opts)>) {
        for r in visible(o).rows {
            if let Row::Cmd { name, inner, .. } = r {
                path.push(name);
                out.push((path.clone(), (*inner).clone()));
                go(&inner, path, out);
                path.pop();
            }
        }
    }
    go(o, &mut vec![], &mut out);
    out
}
