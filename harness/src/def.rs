//! Serialisable AST of parser definitions, the dynamic value type, and the builder that turns
//! a definition into a real `bpaf::OptionParser<Val>` using only bpaf's public API (including
//! the real `construct!` macro for sequential and alternative composition).

use bpaf::*;
use serde::{Deserialize, Serialize};
use std::collections::HashMap;
use std::ffi::OsString;
use std::os::unix::ffi::{OsStrExt, OsStringExt};
use std::sync::Mutex;

// ------------------------------------------------------------------------------------------
// byte strings that survive JSON: printable ASCII verbatim, everything else %XX
// ------------------------------------------------------------------------------------------
#[derive(Clone, PartialEq, Eq, Hash, PartialOrd, Ord, Default)]
pub struct Tok(pub Vec<u8>);

impl Tok {
    pub fn s(s: &str) -> Tok {
        Tok(s.as_bytes().to_vec())
    }
    pub fn os(&self) -> OsString {
        OsString::from_vec(self.0.clone())
    }
    pub fn from_os(o: &std::ffi::OsStr) -> Tok {
        Tok(o.as_bytes().to_vec())
    }
    pub fn utf8(&self) -> Option<&str> {
        std::str::from_utf8(&self.0).ok()
    }
    pub fn lossy(&self) -> String {
        String::from_utf8_lossy(&self.0).into_owned()
    }
    pub fn enc(&self) -> String {
        let mut out = String::new();
        match std::str::from_utf8(&self.0) {
            Ok(s) => {
                for c in s.chars() {
                    if c == '%' || c.is_control() {
                        let mut b = [0u8; 4];
                        for x in c.encode_utf8(&mut b).bytes() {
                            out.push_str(&format!("%{:02X}", x));
                        }
                    } else {
                        out.push(c);
                    }
                }
            }
            Err(_) => {
                for &b in &self.0 {
                    if (0x20..0x7f).contains(&b) && b != b'%' {
                        out.push(b as char);
                    } else {
                        out.push_str(&format!("%{:02X}", b));
                    }
                }
            }
        }
        out
    }
    pub fn dec(s: &str) -> Tok {
        fn hex(b: u8) -> Option<u8> {
            match b {
                b'0'..=b'9' => Some(b - b'0'),
                b'a'..=b'f' => Some(b - b'a' + 10),
                b'A'..=b'F' => Some(b - b'A' + 10),
                _ => None,
            }
        }
        let b = s.as_bytes();
        let mut out = Vec::with_capacity(b.len());
        let mut i = 0;
        while i < b.len() {
            if b[i] == b'%' && i + 3 <= b.len() {
                if let (Some(h), Some(l)) = (hex(b[i + 1]), hex(b[i + 2])) {
                    out.push(h * 16 + l);
                    i += 3;
                    continue;
                }
            }
            out.push(b[i]);
            i += 1;
        }
        Tok(out)
    }
}
impl std::fmt::Debug for Tok {
    fn fmt(&self, f: &mut std::fmt::Formatter<'_>) -> std::fmt::Result {
        write!(f, "{:?}", self.enc())
    }
}
impl Serialize for Tok {
    fn serialize<S: serde::Serializer>(&self, s: S) -> Result<S::Ok, S::Error> {
        s.serialize_str(&self.enc())
    }
}
impl<'de> Deserialize<'de> for Tok {
    fn deserialize<D: serde::Deserializer<'de>>(d: D) -> Result<Self, D::Error> {
        let s = String::deserialize(d)?;
        Ok(Tok::dec(&s))
    }
}
pub fn toks(v: &[&str]) -> Vec<Tok> {
    v.iter().map(|s| Tok::s(s)).collect()
}
pub fn argv_os(v: &[Tok]) -> Vec<OsString> {
    v.iter().map(|t| t.os()).collect()
}

// ------------------------------------------------------------------------------------------
// dynamic value
// ------------------------------------------------------------------------------------------
#[derive(Clone, Debug, PartialEq, Eq, Hash, Serialize, Deserialize)]
pub enum Val {
    B(bool),
    N(u64),
    S(Tok),
    No,
    So(Box<Val>),
    L(Vec<Val>),
    T(Vec<Val>),
    Cmd(String, Box<Val>),
    Tag(String, Box<Val>),
    U,
}
impl Val {
    pub fn s(x: &str) -> Val {
        Val::S(Tok::s(x))
    }
    pub fn some(v: Val) -> Val {
        Val::So(Box::new(v))
    }
    pub fn tag(t: &str, v: Val) -> Val {
        Val::Tag(t.to_string(), Box::new(v))
    }
    /// all `S` leaves, in structural order (ledger oracle)
    pub fn leaves(&self, out: &mut Vec<Tok>) {
        match self {
            Val::S(t) => out.push(t.clone()),
            Val::So(v) | Val::Cmd(_, v) | Val::Tag(_, v) => v.leaves(out),
            Val::L(v) | Val::T(v) => v.iter().for_each(|x| x.leaves(out)),
            _ => {}
        }
    }
}

// ------------------------------------------------------------------------------------------
// AST
// ------------------------------------------------------------------------------------------
#[derive(Clone, Copy, Debug, PartialEq, Eq, Hash, Serialize, Deserialize)]
pub enum Sty {
    Text,
    Lit,
    Em,
    Inv,
    /// a nested document (`Doc::doc`) holding the fragment as a literal
    Nested,
}
/// A styled multi fragment document
#[derive(Clone, Debug, PartialEq, Eq, Hash, Serialize, Deserialize, Default)]
pub struct DocSpec(pub Vec<(Sty, String)>);
impl DocSpec {
    pub fn plain(s: &str) -> DocSpec {
        DocSpec(vec![(Sty::Text, s.to_string())])
    }
    pub fn flat(&self) -> String {
        self.0.iter().map(|x| x.1.as_str()).collect()
    }
    pub fn build(&self) -> Doc {
        // a single plain fragment goes through the `From<&str>` conversion most users rely on
        if self.0.len() == 1 && self.0[0].0 == Sty::Text {
            return Doc::from(self.0[0].1.as_str());
        }
        let mut d = Doc::default();
        for (s, t) in &self.0 {
            match s {
                Sty::Text => d.text(t),
                Sty::Lit => d.literal(t),
                Sty::Em => d.emphasis(t),
                Sty::Inv => d.invalid(t),
                Sty::Nested => {
                    let mut inner = Doc::default();
                    inner.literal(t);
                    d.doc(&inner);
                }
            }
        }
        d
    }
}

#[derive(Clone, Debug, PartialEq, Eq, Hash, Serialize, Deserialize, Default)]
pub struct Names {
    pub shorts: Vec<char>,
    pub longs: Vec<String>,
    #[serde(default, skip_serializing_if = "Vec::is_empty")]
    pub envs: Vec<String>,
    #[serde(default, skip_serializing_if = "Option::is_none")]
    pub help: Option<DocSpec>,
    /// order in which names were declared: true = short first (only matters for which is "first")
    #[serde(default, skip_serializing_if = "std::ops::Not::not")]
    pub long_first: bool,
}
impl Names {
    pub fn short(c: char) -> Names {
        Names { shorts: vec![c], ..Default::default() }
    }
    pub fn long(l: &str) -> Names {
        Names { longs: vec![l.to_string()], ..Default::default() }
    }
    pub fn both(c: char, l: &str) -> Names {
        Names { shorts: vec![c], longs: vec![l.to_string()], ..Default::default() }
    }
    pub fn env(mut self, e: &str) -> Names {
        self.envs.push(e.to_string());
        self
    }
    pub fn help(mut self, h: &str) -> Names {
        self.help = Some(DocSpec::plain(h));
        self
    }
    pub fn alias_s(mut self, c: char) -> Names {
        self.shorts.push(c);
        self
    }
    pub fn alias_l(mut self, l: &str) -> Names {
        self.longs.push(l.to_string());
        self
    }
    /// preferred spelling shown in help/completion
    pub fn preferred(&self) -> String {
        match self.longs.first() {
            Some(l) => format!("--{}", l),
            None => format!("-{}", self.shorts[0]),
        }
    }
    pub fn has_name(&self) -> bool {
        !self.shorts.is_empty() || !self.longs.is_empty()
    }
}

#[derive(Clone, Copy, Debug, PartialEq, Eq, Hash, Serialize, Deserialize)]
pub enum Ty {
    Os,
    Path,
    Str,
    U32,
}
#[derive(Clone, Copy, Debug, PartialEq, Eq, Hash, Serialize, Deserialize)]
pub enum Strict {
    Any,
    Strict,
    NonStrict,
}
#[derive(Clone, Copy, Debug, PartialEq, Eq, Hash, Serialize, Deserialize)]
pub enum GuardK {
    /// an optional value that must be present (absence is reported by the guard)
    Present,
    /// numeric value must be < 10
    Lt10,
    /// string value must not be "bad"
    NotBad,
    /// list must have at most two elements
    Len2,
    /// a pair (or longer tuple) of numbers must be in non-decreasing order
    Ordered,
}
#[derive(Clone, Copy, Debug, PartialEq, Eq, Hash, Serialize, Deserialize)]
pub enum ParseK {
    /// `S` -> `N` through `str::parse::<u32>` (error text is FromStr's)
    ToU32,
    /// `S` -> `S` uppercase, fails with "no-x" when value is "x"
    NoX,
}
#[derive(Clone, Debug, PartialEq, Eq, Hash, Serialize, Deserialize)]
pub enum CompK {
    /// echoes `input+"1"`, `input+"2"` (with descriptions / without)
    Echo2 { descr: bool },
    /// fixed list filtered by prefix
    Fixed(Vec<(String, Option<String>)>),
    /// one candidate: the input itself
    EchoOnly,
    /// none
    Empty,
}
#[derive(Clone, Debug, PartialEq, Eq, Hash, Serialize, Deserialize)]
pub enum ShellK {
    File(Option<String>),
    Dir(Option<String>),
    Raw { bash: String, zsh: String, fish: String, elvish: String },
    Nothing,
}

pub const GUARD_MSG_LT10: &str = "must be below 10";
pub const GUARD_MSG_NOTBAD: &str = "value is bad";
pub const GUARD_MSG_LEN2: &str = "at most two";
pub const GUARD_MSG_ORDERED: &str = "min must not exceed max";
pub const SOME_MSG: &str = "need at least one";

#[derive(Clone, Debug, PartialEq, Eq, Hash, Serialize, Deserialize)]
pub enum P {
    Switch(Names),
    ReqFlag(Names),
    /// `flag(S("on"), S("off"))`
    Flag(Names),
    Arg { names: Names, ty: Ty, adjacent: bool, metavar: String },
    Pos { ty: Ty, strict: Strict, metavar: String, help: Option<DocSpec> },
    Cmd { name: String, shorts: Vec<char>, longs: Vec<String>, inner: Box<Opts>, adjacent: bool, help: Option<DocSpec> },
    Seq(Vec<P>),
    Alt(Vec<P>),
    /// the run-time `bpaf::choice([..])` function instead of `construct!([..])`
    Choice(Vec<P>),
    /// `construct!(a, b, ..).adjacent()`
    Adj(Vec<P>),
    Optional(Box<P>, bool),
    Many(Box<P>, bool),
    Some_(Box<P>, bool),
    Collect(Box<P>, bool),
    Count(Box<P>),
    Last(Box<P>),
    Fallback(Box<P>, Val, bool),
    FallbackWith(Box<P>, Result<Val, String>),
    Guard(Box<P>, GuardK),
    Parse(Box<P>, ParseK),
    Map(Box<P>, String),
    Hide(Box<P>),
    HideUsage(Box<P>),
    CustomUsage(Box<P>, DocSpec),
    GroupHelp(Box<P>, DocSpec),
    WithGroupHelp(Box<P>, DocSpec),
    Complete(Box<P>, CompK, Option<String>),
    CompleteShell(Box<P>, ShellK),
    Pure(Val),
    PureWith(Result<Val, String>),
    Fail(String),
    /// `literal(s).anywhere()`: consumes the first item equal to `s` wherever it stands
    LiteralAnywhere(String),
    /// `any(metavar, |s| s.contains('=').then(..))`: takes the first unconsumed item that looks like KEY=VAL
    AnyKv {
        metavar: String,
        help: Option<DocSpec>,
        /// accept option-looking items (`--tag=NAME`) instead of plain `KEY=VAL` words
        #[serde(default)]
        dash: bool,
    },
}

#[derive(Clone, Debug, PartialEq, Eq, Hash, Serialize, Deserialize, Default)]
pub struct OptsCfg {
    #[serde(default, skip_serializing_if = "Option::is_none")]
    pub descr: Option<DocSpec>,
    #[serde(default, skip_serializing_if = "Option::is_none")]
    pub header: Option<DocSpec>,
    #[serde(default, skip_serializing_if = "Option::is_none")]
    pub footer: Option<DocSpec>,
    #[serde(default, skip_serializing_if = "Option::is_none")]
    pub usage: Option<DocSpec>,
    #[serde(default, skip_serializing_if = "Option::is_none")]
    pub version: Option<DocSpec>,
    #[serde(default, skip_serializing_if = "Option::is_none")]
    pub help_names: Option<Names>,
    #[serde(default, skip_serializing_if = "Option::is_none")]
    pub version_names: Option<Names>,
    #[serde(default, skip_serializing_if = "std::ops::Not::not")]
    pub fallback_to_usage: bool,
    #[serde(default, skip_serializing_if = "Option::is_none")]
    pub max_width: Option<usize>,
}
#[derive(Clone, Debug, PartialEq, Eq, Hash, Serialize, Deserialize)]
pub struct Opts {
    pub p: P,
    #[serde(default)]
    pub cfg: OptsCfg,
}
impl Opts {
    pub fn new(p: P) -> Opts {
        Opts { p, cfg: OptsCfg::default() }
    }
}

// convenience constructors
impl P {
    pub fn bx(self) -> Box<P> {
        Box::new(self)
    }
    pub fn arg(names: Names, ty: Ty) -> P {
        P::Arg { names, ty, adjacent: false, metavar: "ARG".into() }
    }
    pub fn pos(ty: Ty) -> P {
        P::Pos { ty, strict: Strict::Any, metavar: "POS".into(), help: None }
    }
    pub fn cmd(name: &str, inner: Opts) -> P {
        P::Cmd { name: name.into(), shorts: vec![], longs: vec![], inner: Box::new(inner), adjacent: false, help: None }
    }
    pub fn opt(self) -> P {
        P::Optional(self.bx(), false)
    }
    pub fn many(self) -> P {
        P::Many(self.bx(), false)
    }
    pub fn some(self) -> P {
        P::Some_(self.bx(), false)
    }
    pub fn hide(self) -> P {
        P::Hide(self.bx())
    }
    pub fn fallback(self, v: Val) -> P {
        P::Fallback(self.bx(), v, false)
    }
    /// number of AST nodes
    pub fn size(&self) -> usize {
        let mut n = 1;
        self.children(&mut |c| n += c.size());
        n
    }
    pub fn children(&self, f: &mut dyn FnMut(&P)) {
        match self {
            P::Seq(v) | P::Alt(v) | P::Choice(v) | P::Adj(v) => v.iter().for_each(|x| f(x)),
            P::Cmd { inner, .. } => f(&inner.p),
            P::Optional(p, _) | P::Many(p, _) | P::Some_(p, _) | P::Collect(p, _) | P::Count(p) | P::Last(p) | P::Fallback(p, _, _) | P::FallbackWith(p, _) | P::Guard(p, _) | P::Parse(p, _) | P::Map(p, _) | P::Hide(p) | P::HideUsage(p) | P::CustomUsage(p, _) | P::GroupHelp(p, _) | P::WithGroupHelp(p, _) | P::Complete(p, _, _) | P::CompleteShell(p, _) => f(p),
            _ => {}
        }
    }
}

// ------------------------------------------------------------------------------------------
// interning (bpaf wants &'static str for names and metavars)
// ------------------------------------------------------------------------------------------
static INTERN: Mutex<Option<HashMap<String, &'static str>>> = Mutex::new(None);
pub fn intern(s: &str) -> &'static str {
    let mut g = INTERN.lock().unwrap_or_else(|e| e.into_inner());
    let m = g.get_or_insert_with(HashMap::new);
    if let Some(v) = m.get(s) {
        return v;
    }
    let l: &'static str = Box::leak(s.to_string().into_boxed_str());
    m.insert(s.to_string(), l);
    l
}

// ------------------------------------------------------------------------------------------
// builder
// ------------------------------------------------------------------------------------------
pub type BP = Box<dyn Parser<Val>>;

pub fn named(n: &Names) -> parsers::NamedArg {
    let mut it: Option<parsers::NamedArg> = None;
    let push_s = |it: Option<parsers::NamedArg>, c: char| match it {
        None => Some(short(c)),
        Some(x) => Some(x.short(c)),
    };
    let push_l = |it: Option<parsers::NamedArg>, l: &str| match it {
        None => Some(long(intern(l))),
        Some(x) => Some(x.long(intern(l))),
    };
    if n.long_first {
        for l in &n.longs {
            it = push_l(it, l);
        }
        for c in &n.shorts {
            it = push_s(it, *c);
        }
    } else {
        for c in &n.shorts {
            it = push_s(it, *c);
        }
        for l in &n.longs {
            it = push_l(it, l);
        }
    }
    for e in &n.envs {
        it = match it {
            None => Some(env(intern(e))),
            Some(x) => Some(x.env(intern(e))),
        };
    }
    let mut it = it.expect("item without any name");
    if let Some(h) = &n.help {
        it = it.help(h.build());
    }
    it
}

fn os_to_val(o: OsString) -> Val {
    Val::S(Tok(o.into_vec()))
}

fn optv(o: Option<Val>) -> Val {
    match o {
        Some(v) => Val::So(Box::new(v)),
        None => Val::No,
    }
}

fn guard_fn(k: GuardK) -> (fn(&Val) -> bool, &'static str) {
    match k {
        GuardK::Present => (|v| !matches!(v, Val::No), "must be given"),
        GuardK::Lt10 => (|v| !matches!(v, Val::N(n) if *n >= 10), GUARD_MSG_LT10),
        GuardK::NotBad => (|v| !matches!(v, Val::S(t) if t.0 == b"bad"), GUARD_MSG_NOTBAD),
        GuardK::Len2 => (|v| !matches!(v, Val::L(l) if l.len() > 2), GUARD_MSG_LEN2),
        GuardK::Ordered => (
            |v| match v {
                Val::T(xs) => {
                    let ns: Vec<u64> = xs.iter().filter_map(|x| if let Val::N(n) = x { Some(*n) } else { None }).collect();
                    ns.windows(2).all(|w| w[0] <= w[1])
                }
                _ => true,
            },
            GUARD_MSG_ORDERED,
        ),
    }
}

pub fn parse_fn(k: ParseK, v: Val) -> Result<Val, String> {
    match k {
        ParseK::ToU32 => match &v {
            Val::S(t) => match t.utf8() {
                Some(s) => s.parse::<u32>().map(|n| Val::N(n as u64)).map_err(|e| e.to_string()),
                None => Err("not utf8".to_string()),
            },
            _ => Ok(v),
        },
        ParseK::NoX => match &v {
            Val::S(t) if t.0 == b"x" => Err("no-x".to_string()),
            Val::S(t) => Ok(Val::S(Tok(t.0.to_ascii_uppercase()))),
            _ => Ok(v),
        },
    }
}

macro_rules! seq_n {
    ($ps:expr, $adj:expr; $($n:ident),+) => {{
        let mut it = $ps.into_iter();
        $(let $n: BP = it.next().unwrap();)+
        let c = construct!($($n),+);
        if $adj {
            c.adjacent().map(|($($n),+)| Val::T(vec![$($n),+])).boxed()
        } else {
            c.map(|($($n),+)| Val::T(vec![$($n),+])).boxed()
        }
    }};
}

/// sequential composition through the real `construct!` macro; `adj` adds `.adjacent()`
pub fn seq(ps: Vec<BP>, adj: bool) -> BP {
    match ps.len() {
        0 => pure(Val::T(vec![])).boxed(),
        1 => {
            // construct!(a) is `a.boxed()`; adjacent needs a ParseCon, so pair it with pure
            let a = ps.into_iter().next().unwrap();
            if adj {
                let u: BP = pure(Val::U).boxed();
                construct!(a, u).adjacent().map(|(a, _)| Val::T(vec![a])).boxed()
            } else {
                construct!(a).map(|a| Val::T(vec![a])).boxed()
            }
        }
        2 => seq_n!(ps, adj; a, b),
        3 => seq_n!(ps, adj; a, b, c),
        4 => seq_n!(ps, adj; a, b, c, d),
        5 => seq_n!(ps, adj; a, b, c, d, e),
        6 => seq_n!(ps, adj; a, b, c, d, e, f),
        7 => seq_n!(ps, adj; a, b, c, d, e, f, g),
        8 => seq_n!(ps, adj; a, b, c, d, e, f, g, h),
        n => panic!("seq arity {} not instantiated", n),
    }
}

/// alternative composition through the real `construct!([..])` macro
pub fn alt(ps: Vec<BP>) -> BP {
    macro_rules! alt_n {
        ($($n:ident),+) => {{
            let mut it = ps.into_iter();
            $(let $n: BP = it.next().unwrap();)+
            construct!([$($n),+]).boxed()
        }};
    }
    match ps.len() {
        0 => fail::<Val>("no alternatives").boxed(),
        1 => alt_n!(a),
        2 => alt_n!(a, b),
        3 => alt_n!(a, b, c),
        4 => alt_n!(a, b, c, d),
        5 => alt_n!(a, b, c, d, e),
        6 => alt_n!(a, b, c, d, e, f),
        n => panic!("alt arity {} not instantiated", n),
    }
}

pub fn build_p(p: &P) -> BP {
    match p {
        P::Switch(n) => named(n).switch().map(Val::B).boxed(),
        P::ReqFlag(n) => named(n).req_flag(Val::B(true)).boxed(),
        P::Flag(n) => named(n).flag(Val::s("on"), Val::s("off")).boxed(),
        P::Arg { names, ty, adjacent, metavar } => {
            let mv = intern(metavar);
            macro_rules! mk {
                ($t:ty, $f:expr) => {{
                    // a metavariable ending in `_` asks for the help to be attached AFTER the
                    // `adjacent` restriction (both orders are legal and must mean the same)
                    let help_last = metavar.ends_with('_') && names.help.is_some();
                    let a = if help_last {
                        let mut bare = names.clone();
                        bare.help = None;
                        named(&bare).argument::<$t>(mv)
                    } else {
                        named(names).argument::<$t>(mv)
                    };
                    let a = if *adjacent { a.adjacent() } else { a };
                    let a = if help_last { a.help(names.help.as_ref().unwrap().build()) } else { a };
                    a.map($f).boxed()
                }};
            }
            match ty {
                Ty::Os => mk!(OsString, os_to_val),
                Ty::Path => mk!(std::path::PathBuf, |p: std::path::PathBuf| os_to_val(p.into_os_string())),
                Ty::Str => mk!(String, |s: String| Val::S(Tok(s.into_bytes()))),
                Ty::U32 => mk!(u32, |n: u32| Val::N(n as u64)),
            }
        }
        P::Pos { ty, strict, metavar, help } => {
            let mv = intern(metavar);
            macro_rules! mk {
                ($t:ty, $f:expr) => {{
                    // a metavariable ending in `_` asks for the help to be attached AFTER the
                    // strictness annotation (both orders are legal and must mean the same)
                    let help_last = metavar.ends_with('_');
                    let mut a = positional::<$t>(mv);
                    if let (Some(h), false) = (help, help_last) {
                        a = a.help(h.build());
                    }
                    let mut a = match strict {
                        Strict::Any => a,
                        Strict::Strict => a.strict(),
                        Strict::NonStrict => a.non_strict(),
                    };
                    if let (Some(h), true) = (help, help_last) {
                        a = a.help(h.build());
                    }
                    a.map($f).boxed()
                }};
            }
            match ty {
                Ty::Os => mk!(OsString, os_to_val),
                Ty::Path => mk!(std::path::PathBuf, |p: std::path::PathBuf| os_to_val(p.into_os_string())),
                Ty::Str => mk!(String, |s: String| Val::S(Tok(s.into_bytes()))),
                Ty::U32 => mk!(u32, |n: u32| Val::N(n as u64)),
            }
        }
        P::Cmd { name, shorts, longs, inner, adjacent, help } => {
            let nm = name.clone();
            let mut c = build_opts(inner).command(intern(name));
            for s in shorts {
                c = c.short(*s);
            }
            for l in longs {
                c = c.long(intern(l));
            }
            if let Some(h) = help {
                c = c.help(h.build());
            }
            if *adjacent {
                c = c.adjacent();
            }
            c.map(move |v| Val::Cmd(nm.clone(), Box::new(v))).boxed()
        }
        P::Seq(v) => seq(v.iter().map(build_p).collect(), false),
        P::Adj(v) => seq(v.iter().map(build_p).collect(), true),
        P::Alt(v) => alt(v.iter().map(build_p).collect()),
        P::Choice(v) => bpaf::choice(v.iter().map(build_p).collect::<Vec<_>>()).boxed(),
        P::Optional(p, catch) => {
            let o = build_p(p).optional();
            if *catch {
                o.catch().map(optv).boxed()
            } else {
                o.map(optv).boxed()
            }
        }
        P::Many(p, catch) => {
            let o = build_p(p).many();
            if *catch {
                o.catch().map(Val::L).boxed()
            } else {
                o.map(Val::L).boxed()
            }
        }
        P::Some_(p, catch) => {
            let o = build_p(p).some(SOME_MSG);
            if *catch {
                o.catch().map(Val::L).boxed()
            } else {
                o.map(Val::L).boxed()
            }
        }
        P::Collect(p, catch) => {
            let o = build_p(p).collect::<Vec<Val>>();
            if *catch {
                o.catch().map(Val::L).boxed()
            } else {
                o.map(Val::L).boxed()
            }
        }
        P::Count(p) => build_p(p).count().map(|n| Val::N(n as u64)).boxed(),
        P::Last(p) => build_p(p).last().boxed(),
        P::Fallback(p, v, display) => {
            let f = build_p(p).fallback(v.clone());
            if *display {
                f.debug_fallback().boxed()
            } else {
                f.boxed()
            }
        }
        P::FallbackWith(p, r) => {
            let r = r.clone();
            build_p(p).fallback_with(move || r.clone()).boxed()
        }
        P::Guard(p, k) => {
            let (f, m) = guard_fn(*k);
            build_p(p).guard(f, m).boxed()
        }
        P::Parse(p, k) => {
            let k = *k;
            build_p(p).parse(move |v| parse_fn(k, v)).boxed()
        }
        P::Map(p, t) => {
            let t = t.clone();
            build_p(p).map(move |v| Val::Tag(t.clone(), Box::new(v))).boxed()
        }
        P::Hide(p) => build_p(p).hide().boxed(),
        P::HideUsage(p) => build_p(p).hide_usage().boxed(),
        P::CustomUsage(p, d) => build_p(p).custom_usage(d.build()).boxed(),
        P::GroupHelp(p, d) => build_p(p).group_help(d.build()).boxed(),
        P::WithGroupHelp(p, d) => {
            let d = d.clone();
            build_p(p)
                .with_group_help(move |_m| d.build())
                .boxed()
        }
        #[cfg(any(feature = "full", feature = "ac"))]
        P::Complete(p, k, group) => {
            let k = k.clone();
            let c = build_p(p).complete(move |v: &Val| completer(&k, v));
            match group {
                Some(g) => c.group(g.clone()).boxed(),
                None => c.boxed(),
            }
        }
        #[cfg(any(feature = "full", feature = "ac"))]
        P::CompleteShell(p, k) => {
            let op = match k {
                ShellK::File(m) => ShellComp::File { mask: m.as_ref().map(|s| intern(s)) },
                ShellK::Dir(m) => ShellComp::Dir { mask: m.as_ref().map(|s| intern(s)) },
                ShellK::Raw { bash, zsh, fish, elvish } => ShellComp::Raw { bash: intern(bash), zsh: intern(zsh), fish: intern(fish), elvish: intern(elvish) },
                ShellK::Nothing => ShellComp::Nothing,
            };
            build_p(p).complete_shell(op).boxed()
        }
        #[cfg(not(any(feature = "full", feature = "ac")))]
        P::Complete(p, _, _) | P::CompleteShell(p, _) => build_p(p),
        P::Pure(v) => pure(v.clone()).boxed(),
        P::PureWith(r) => {
            let r = r.clone();
            pure_with(move || r.clone()).boxed()
        }
        P::Fail(m) => fail::<Val>(intern(m)).boxed(),
        P::LiteralAnywhere(s) => literal(intern(s)).anywhere().map(|_| Val::U).boxed(),
        P::AnyKv { metavar, help, dash } => {
            let dash = *dash;
            let a = any::<String, _, _>(intern(metavar), move |s: String| if s.contains('=') && s.starts_with('-') == dash { Some(Val::s(&s)) } else { None });
            match help {
                Some(h) => a.help(h.build()).boxed(),
                None => a.boxed(),
            }
        }
    }
}

pub fn completer(k: &CompK, v: &Val) -> Vec<(String, Option<String>)> {
    // a completer attached above optional / many / fallback sees the wrapped value
    fn text(v: &Val) -> String {
        match v {
            Val::S(t) => t.lossy(),
            Val::N(n) => n.to_string(),
            Val::So(x) => text(x),
            Val::L(xs) => xs.last().map(text).unwrap_or_default(),
            _ => String::new(),
        }
    }
    let input = text(v);
    match k {
        CompK::Echo2 { descr } => vec![
            (format!("{}1", input), if *descr { Some("one".to_string()) } else { None }),
            (format!("{}2", input), if *descr { Some("two".to_string()) } else { None }),
        ],
        CompK::Fixed(l) => l.iter().filter(|(s, _)| s.starts_with(&input)).cloned().collect(),
        CompK::EchoOnly => vec![(input, None)],
        CompK::Empty => vec![],
    }
}

pub fn build_opts(o: &Opts) -> OptionParser<Val> {
    let mut op = build_p(&o.p).to_options();
    let c = &o.cfg;
    if let Some(d) = &c.descr {
        op = op.descr(d.build());
    }
    if let Some(d) = &c.header {
        op = op.header(d.build());
    }
    if let Some(d) = &c.footer {
        op = op.footer(d.build());
    }
    if let Some(d) = &c.usage {
        op = op.usage(d.build());
    }
    if let Some(d) = &c.version {
        op = op.version(d.build());
    }
    if let Some(n) = &c.help_names {
        op = op.help_parser(named(n));
    }
    if let Some(n) = &c.version_names {
        op = op.version_parser(named(n));
    }
    if c.fallback_to_usage {
        op = op.fallback_to_usage();
    }
    if let Some(w) = c.max_width {
        op = op.max_width(w);
    }
    op
}
