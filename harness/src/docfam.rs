//! Definitions that carry user visible texts (help, titles, descriptions): the family behind
//! C12 (help lists exactly what is accepted) and C16 (generated documentation).
use crate::def::*;

pub const DOC_FIELDS: usize = 20;

fn h(n: Names, t: &str) -> Names {
    n.help(t)
}

/// field kind k; every text is a unique lowercase word sequence so rows can be recognised
pub fn doc_field(k: usize) -> P {
    let arg = |n: Names, mv: &str| P::Arg { names: n, ty: Ty::Os, adjacent: false, metavar: mv.into() };
    match k {
        0 => P::Switch(h(Names::both('a', "alpha").env("BPAFMC_DOC"), "alpha switch help")),
        1 => arg(h(Names::long("beta").env("BPAFMC_DOC"), "beta argument help"), "BETA"),
        2 => arg(Names::short('c'), "CEE"),
        3 => P::Switch(h(Names::both('d', "delta"), "hidden thing")).hide(),
        4 => P::Switch(h(Names::both('e', "echo").alias_s('E').alias_l("echo-alias"), "echo with aliases")),
        5 => P::Alt(vec![P::ReqFlag(h(Names::both('f', "fox"), "first alternative")), P::ReqFlag(h(Names::long("golf"), "second alternative"))]),
        6 => P::GroupHelp(P::Seq(vec![P::Switch(h(Names::short('i'), "grouped switch")), arg(h(Names::long("india"), "grouped argument"), "IND")]).bx(), DocSpec::plain("Custom group title")),
        7 => P::WithGroupHelp(arg(h(Names::both('j', "juliet"), "argument in generated group"), "JUL").bx(), DocSpec::plain("Generated group title")),
        8 => P::Fallback(arg(h(Names::long("kilo"), "defaulted argument"), "KIL").bx(), Val::s("dflt"), true),
        9 => P::HideUsage(P::Switch(h(Names::both('l', "lima"), "not in usage")).bx()),
        10 => P::CustomUsage(arg(h(Names::long("mike"), "custom usage argument"), "MIK").bx(), DocSpec::plain("CUSTOMUSAGE")),
        // the same item in two alternatives: shown once
        11 => P::Alt(vec![
            P::Seq(vec![P::ReqFlag(h(Names::long("dup"), "duplicated item")), P::ReqFlag(h(Names::short('n'), "only in first"))]),
            P::Seq(vec![P::ReqFlag(h(Names::long("dup"), "duplicated item")), P::ReqFlag(h(Names::short('o'), "only in second"))]),
        ])
        .opt(),
        12 => P::Adj(vec![
            P::ReqFlag(h(Names::long("point"), "point group flag")),
            P::Pos { ty: Ty::Os, strict: Strict::Any, metavar: "PX".into(), help: Some(DocSpec::plain("x coordinate")) },
            P::Pos { ty: Ty::Os, strict: Strict::Any, metavar: "PY".into(), help: None },
        ])
        .many(),
        // (its help is a sequence of separately styled fragments with the paragraph break in the
        // middle: the short form stops there and the rows after it must be intact)
        13 => arg(
            Names { help: Some(DocSpec(vec![(Sty::Text, "repeated ".into()), (Sty::Lit, "argument".into()), (Sty::Text, "\n\nsecond paragraph only in ".into()), (Sty::Em, "full".into()), (Sty::Text, " help".into())])), ..Names::both('q', "quebec") },
            "QUE",
        )
        .many(),
        14 => P::Optional(P::Seq(vec![arg(h(Names::long("romeo"), "group member one"), "ROM"), P::Switch(h(Names::short('s'), "group member two"))]).bx(), false),
        // a titled group whose first member is hidden: the visible rest must still be listed
        15 => P::GroupHelp(P::Seq(vec![P::Switch(h(Names::long("tango-hidden"), "hidden first member")).hide(), arg(h(Names::long("tango"), "visible group member"), "TAN"), P::Switch(h(Names::short('t'), "another visible member"))]).bx(), DocSpec::plain("Group with a hidden head")),
        // a flag and an argument sharing name and help text are two different items
        16 => P::Alt(vec![P::Map(P::ReqFlag(h(Names::long("uniform"), "dual purpose item")).bx(), "f".into()), P::Map(arg(h(Names::long("uniform"), "dual purpose item"), "UNI").bx(), "a".into())]).opt(),
        // a titled group starting with `pure`
        17 => P::WithGroupHelp(P::Seq(vec![P::Pure(Val::U), arg(h(Names::both('w', "whiskey-arg"), "member after pure"), "WHI")]).bx(), DocSpec::plain("Group starting with pure")),
        // an adjacent group of positionals without help: it has no rows of its own, what follows
        // it must keep its sections
        18 => P::Adj(vec![
            P::Pos { ty: Ty::Os, strict: Strict::Any, metavar: "XA".into(), help: None },
            P::Pos { ty: Ty::Os, strict: Strict::Any, metavar: "XB".into(), help: None },
        ])
        .opt(),
        // an adjacent group whose value is matched by `any` (KEY=VAL) and has its own help row
        19 => P::Adj(vec![
            P::ReqFlag(h(Names::long("set"), "set a key")),
            P::AnyKv { metavar: "KEY=VAL".into(), help: Some(DocSpec::plain("key value pair")), dash: false },
        ])
        .many(),
        _ => unreachable!(),
    }
}

pub fn doc_tails() -> Vec<Vec<P>> {
    let pos = |mv: &str, help: Option<&str>, strict: Strict| P::Pos { ty: Ty::Os, strict, metavar: mv.into(), help: help.map(DocSpec::plain) };
    let mut sub = Opts::new(P::Seq(vec![P::Switch(h(Names::both('x', "xray"), "inner switch")), P::Switch(h(Names::short('y'), "inner hidden")).hide(), pos("INNERPOS", Some("inner positional"), Strict::Any).opt()]));
    sub.cfg.descr = Some(DocSpec::plain("inner commánd déscription — ünïcode\n\nmore about it"));
    sub.cfg.header = Some(DocSpec::plain("inner header text"));
    let mut deep = Opts::new(P::Seq(vec![arg_plain("zulu", "deepest argument")]));
    deep.cfg.descr = Some(DocSpec::plain("deepest level"));
    let mut sub2 = Opts::new(P::Seq(vec![P::Switch(h(Names::long("whiskey"), "second inner")), P::cmd("deep", deep)]));
    // a version of its own: only this level (not the root, not `deep`) takes --version
    sub2.cfg.version = Some(DocSpec::plain("2.0-inner"));
    let c1 = P::Cmd { name: "cmd".into(), shorts: vec!['m'], longs: vec!["command-alias".into()], inner: Box::new(sub.clone()), adjacent: false, help: None };
    let c2 = P::Cmd { name: "other".into(), shorts: vec![], longs: vec![], inner: Box::new(sub2), adjacent: false, help: Some(DocSpec::plain("explicit command help")) };
    let c3 = P::Cmd { name: "secret".into(), shorts: vec![], longs: vec![], inner: Box::new(Opts::new(P::Seq(vec![]))), adjacent: false, help: Some(DocSpec::plain("hidden command")) }.hide();
    vec![
        vec![],
        vec![pos("FILE", Some("file positional help"), Strict::Any)],
        vec![pos("NOHELP", None, Strict::Any).opt()],
        vec![pos("STRICTP", Some("strict positional help"), Strict::Strict).many()],
        // (the fourth command documents nothing of its own: one positional without help)
        vec![P::Alt(vec![c1.clone(), c2.clone(), c3, {
            let mut bare = Opts::new(P::Seq(vec![pos("BAREPOS", None, Strict::Any)]));
            bare.cfg.descr = Some(DocSpec::plain("a command without documented items"));
            bare.cfg.footer = Some(DocSpec::plain("footer of the bare command"));
            P::Cmd { name: "bare".into(), shorts: vec![], longs: vec![], inner: Box::new(bare), adjacent: false, help: None }
        }]).opt()],
        vec![c1.clone()],
        // command paths that differ only in dash-versus-nesting (anchors and section keys derived
        // from them must stay distinct)
        vec![P::Alt(vec![
            P::Cmd { name: "remote-add".into(), shorts: vec![], longs: vec![], inner: Box::new(Opts::new(P::Seq(vec![P::Switch(h(Names::long("dashed"), "flag of the dashed command"))]))), adjacent: false, help: Some(DocSpec::plain("dashed name")) },
            P::Cmd { name: "remote".into(), shorts: vec![], longs: vec![], inner: Box::new(Opts::new(P::Seq(vec![P::Alt(vec![
                P::Cmd { name: "add".into(), shorts: vec![], longs: vec![], inner: Box::new(Opts::new(P::Seq(vec![P::Switch(h(Names::long("nested"), "flag of the nested command"))]))), adjacent: false, help: Some(DocSpec::plain("nested name")) },
                P::Cmd { name: "remove".into(), shorts: vec![], longs: vec![], inner: Box::new(Opts::new(P::Seq(vec![P::Switch(h(Names::long("purge"), "flag of the second nested command"))]))), adjacent: false, help: Some(DocSpec::plain("second nested")) },
                P::Cmd { name: "rename".into(), shorts: vec![], longs: vec![], inner: Box::new(Opts::new(P::Seq(vec![P::Switch(h(Names::long("force-rename"), "flag of the third nested command"))]))), adjacent: false, help: Some(DocSpec::plain("third nested")) },
            ])]))), adjacent: false, help: Some(DocSpec::plain("outer of the nested")) },
        ])],
        // a command sharing a titled group with a flag that comes first
        vec![P::GroupHelp(P::Seq(vec![P::Switch(h(Names::long("victor"), "flag next to a command")), c1]).bx(), DocSpec::plain("Flag and command together"))],
    ]
}

fn arg_plain(long: &str, help: &str) -> P {
    P::Arg { names: h(Names::long(long), help), ty: Ty::Os, adjacent: false, metavar: "VAL".into() }
}

pub fn cfg_variant(i: usize) -> OptsCfg {
    let mut c = OptsCfg::default();
    match i % 4 {
        0 => {}
        1 => {
            c.descr = Some(DocSpec::plain("top description text"));
            c.header = Some(DocSpec::plain("top header text"));
            c.footer = Some(DocSpec::plain("top footer text"));
        }
        2 => {
            c.version = Some(DocSpec::plain("9.9.9"));
            c.footer = Some(DocSpec::plain("only footer text"));
        }
        _ => {
            c.descr = Some(DocSpec::plain("described only"));
            c.usage = Some(DocSpec::plain("OVERRIDDEN USAGE"));
        }
    }
    c
}

/// every ordered pair (quick) / triple (thorough) of distinct field kinds x tails
pub fn doc_defs(n: usize) -> Vec<Opts> {
    let mut out = vec![];
    let tails = doc_tails();
    let mut tuples: Vec<Vec<usize>> = vec![vec![]];
    let mut all: Vec<Vec<usize>> = vec![vec![]];
    for _ in 0..n {
        let mut next = vec![];
        for t in &tuples {
            for k in 0..DOC_FIELDS {
                if !t.contains(&k) {
                    let mut t2 = t.clone();
                    t2.push(k);
                    next.push(t2);
                }
            }
        }
        all.extend(next.iter().cloned());
        tuples = next;
    }
    let mut i = 0;
    for t in &all {
        for (ti, tail) in tails.iter().enumerate() {
            // the row-less positional group would swallow a command name: not beside commands
            if t.contains(&18) && ti >= 4 {
                i += 1;
                continue;
            }
            let mut fields: Vec<P> = t.iter().map(|k| doc_field(*k)).collect();
            fields.extend(tail.iter().cloned());
            out.push(Opts { p: P::Seq(fields), cfg: cfg_variant(i) });
            i += 1;
        }
    }
    out
}
