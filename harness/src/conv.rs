//! The "conventional fragment": levels made of uniquely named items, a positional suffix or a
//! sub-command tree — and the *reference model* for it: a deliberately boring left-to-right
//! scanner that implements what the documentation says, written without looking at how bpaf
//! tracks consumption.

use crate::def::*;
use serde::{Deserialize, Serialize};
use std::collections::BTreeMap;

#[derive(Clone, Copy, Debug, PartialEq, Eq, Hash, Serialize, Deserialize, PartialOrd, Ord)]
pub enum Kind {
    Switch,
    Flag,
    ReqFlag,
    Count,
    ArgReq,
    ArgOpt,
    ArgMany,
    ArgSome,
    ArgFallback,
    ArgLast,
}
pub const KINDS: [Kind; 10] = [Kind::Switch, Kind::Flag, Kind::ReqFlag, Kind::Count, Kind::ArgReq, Kind::ArgOpt, Kind::ArgMany, Kind::ArgSome, Kind::ArgFallback, Kind::ArgLast];
impl Kind {
    pub fn is_arg(self) -> bool {
        matches!(self, Kind::ArgReq | Kind::ArgOpt | Kind::ArgMany | Kind::ArgSome | Kind::ArgFallback | Kind::ArgLast)
    }
    /// may be given at most once
    pub fn single(self) -> bool {
        matches!(self, Kind::Switch | Kind::Flag | Kind::ReqFlag | Kind::ArgReq | Kind::ArgOpt | Kind::ArgFallback)
    }
    /// must be given at least once
    pub fn required(self) -> bool {
        matches!(self, Kind::ReqFlag | Kind::ArgReq | Kind::ArgSome | Kind::ArgLast)
    }
}

#[derive(Clone, Debug, PartialEq, Eq, Hash, Serialize, Deserialize)]
pub struct Named {
    pub names: Names,
    pub kind: Kind,
    #[serde(default, skip_serializing_if = "std::ops::Not::not")]
    pub hidden: bool,
    /// value type of an argument (conversion failure of a present value fails the run)
    #[serde(default = "ty_os")]
    pub ty: Ty,
    /// `adjacent`-restricted argument: name and value must share one item
    #[serde(default, skip_serializing_if = "std::ops::Not::not")]
    pub adjacent: bool,
    /// `.guard(|v| v < 10, ..)` on the (u32) value: a present value failing it fails the run
    #[serde(default, skip_serializing_if = "std::ops::Not::not")]
    pub guarded: bool,
}
fn ty_os() -> Ty {
    Ty::Os
}
/// conversion of a raw value to the item's type, as the documentation describes it
pub fn convert(ty: Ty, t: &Tok) -> Option<Val> {
    match ty {
        Ty::Os | Ty::Path => Some(Val::S(t.clone())),
        Ty::Str => t.utf8().map(|_| Val::S(t.clone())),
        Ty::U32 => t.utf8().and_then(|s| s.parse::<u32>().ok()).map(|n| Val::N(n as u64)),
    }
}
#[derive(Clone, Copy, Debug, PartialEq, Eq, Hash, Serialize, Deserialize)]
pub enum PosKind {
    Req,
    Opt,
    Many,
    Some,
    /// `.fallback("DEF")`: an unsuitable or missing word is absence
    Fallback,
}
#[derive(Clone, Copy, Debug, PartialEq, Eq, Hash, Serialize, Deserialize)]
pub struct PosItem {
    pub kind: PosKind,
    pub strict: Strict,
}
#[derive(Clone, Debug, PartialEq, Eq, Hash, Serialize, Deserialize)]
pub struct CmdDef {
    pub name: String,
    #[serde(default, skip_serializing_if = "Vec::is_empty")]
    pub shorts: Vec<char>,
    #[serde(default, skip_serializing_if = "Vec::is_empty")]
    pub longs: Vec<String>,
    pub level: Level,
}
#[derive(Clone, Debug, PartialEq, Eq, Hash, Serialize, Deserialize)]
pub enum Tail {
    None,
    Pos(Vec<PosItem>),
    /// choice between commands: required, `.optional()` or `.fallback("nocmd")`
    Cmds { cmds: Vec<CmdDef>, wrap: CmdWrap },
}
#[derive(Clone, Copy, Debug, PartialEq, Eq, Hash, Serialize, Deserialize)]
pub enum CmdWrap {
    Required,
    Optional,
    Fallback,
    /// `construct!([cmd1, cmd2, pure("nocmd")])`: the default is a last alternative
    PureAlt,
    /// `construct!([pure("nocmd"), cmd1, cmd2])`: the default is the FIRST alternative; an
    /// entered command still wins (deeper path), whether it then succeeds, fails or prints help
    PureFirst,
}
#[derive(Clone, Debug, PartialEq, Eq, Hash, Serialize, Deserialize)]
pub struct Level {
    pub named: Vec<Named>,
    pub tail: Tail,
    #[serde(default, skip_serializing_if = "Option::is_none")]
    pub version: Option<String>,
    /// `fallback_to_usage()`: print the usage when the level got no items at all and fails
    #[serde(default, skip_serializing_if = "std::ops::Not::not")]
    pub usage_fallback: bool,
}

pub const DEF_VALUE: &str = "DEF";
pub const NOCMD: &str = "nocmd";

impl Named {
    pub fn to_p(&self) -> P {
        let n = self.names.clone();
        let (ty, adjacent) = (self.ty, self.adjacent);
        let guarded = self.guarded;
        let arg = |n: Names| {
            let a = P::Arg { names: n, ty, adjacent, metavar: "ARG".into() };
            if guarded {
                P::Guard(a.bx(), GuardK::Lt10)
            } else {
                a
            }
        };
        let p = match self.kind {
            Kind::Switch => P::Switch(n),
            Kind::Flag => P::Flag(n),
            Kind::ReqFlag => P::ReqFlag(n),
            Kind::Count => P::Count(P::ReqFlag(n).bx()),
            Kind::ArgReq => arg(n),
            Kind::ArgOpt => arg(n).opt(),
            Kind::ArgMany => arg(n).many(),
            Kind::ArgSome => arg(n).some(),
            Kind::ArgFallback => arg(n).fallback(Val::s(DEF_VALUE)),
            Kind::ArgLast => P::Last(arg(n).bx()),
        };
        if self.hidden {
            p.hide()
        } else {
            p
        }
    }
}
impl PosItem {
    pub fn to_p(&self) -> P {
        let p = P::Pos { ty: Ty::Os, strict: self.strict, metavar: "POS".into(), help: None };
        match self.kind {
            PosKind::Req => p,
            PosKind::Opt => p.opt(),
            PosKind::Fallback => p.fallback(Val::s(DEF_VALUE)),
            PosKind::Many => p.many(),
            PosKind::Some => p.some(),
        }
    }
}
impl Level {
    pub fn to_opts(&self) -> Opts {
        let mut ps: Vec<P> = self.named.iter().map(|n| n.to_p()).collect();
        match &self.tail {
            Tail::None => {}
            Tail::Pos(v) => ps.extend(v.iter().map(|p| p.to_p())),
            Tail::Cmds { cmds, wrap } => {
                let alts: Vec<P> = cmds
                    .iter()
                    .map(|c| P::Cmd { name: c.name.clone(), shorts: c.shorts.clone(), longs: c.longs.clone(), inner: Box::new(c.level.to_opts()), adjacent: false, help: None })
                    .collect();
                let mut alts = alts;
                if *wrap == CmdWrap::PureAlt {
                    alts.push(P::Pure(Val::s(NOCMD)));
                }
                if *wrap == CmdWrap::PureFirst {
                    alts.insert(0, P::Pure(Val::s(NOCMD)));
                }
                let c = P::Alt(alts);
                ps.push(match wrap {
                    CmdWrap::Required | CmdWrap::PureAlt | CmdWrap::PureFirst => c,
                    CmdWrap::Optional => c.opt(),
                    CmdWrap::Fallback => c.fallback(Val::s(NOCMD)),
                });
            }
        }
        let mut o = Opts::new(P::Seq(ps));
        if let Some(v) = &self.version {
            o.cfg.version = Some(DocSpec::plain(v));
        }
        o.cfg.fallback_to_usage = self.usage_fallback;
        o
    }
    pub fn walk<'a>(&'a self, f: &mut dyn FnMut(&'a Level, usize), depth: usize) {
        f(self, depth);
        if let Tail::Cmds { cmds, .. } = &self.tail {
            for c in cmds {
                c.level.walk(f, depth + 1);
            }
        }
    }
    pub fn find_named(&self, short: Option<char>, long: Option<&str>) -> Option<usize> {
        self.named.iter().position(|n| short.map_or(false, |s| n.names.shorts.contains(&s)) || long.map_or(false, |l| n.names.longs.iter().any(|x| x == l)))
    }
    pub fn find_cmd(&self, w: &[u8]) -> Option<&CmdDef> {
        if let Tail::Cmds { cmds, .. } = &self.tail {
            let w = std::str::from_utf8(w).ok()?;
            cmds.iter().find(|c| {
                c.name == w || c.longs.iter().any(|l| l == w) || {
                    let mut it = w.chars();
                    match (it.next(), it.next()) {
                        (Some(ch), None) => c.shorts.contains(&ch),
                        _ => false,
                    }
                }
            })
        } else {
            None
        }
    }
}

// ------------------------------------------------------------------------------------------
// reference tokenizer
// ------------------------------------------------------------------------------------------
#[derive(Clone, Debug, PartialEq, Eq)]
pub enum Ev {
    /// `--name` / `--name=value`
    Long(String, Option<Tok>),
    /// `-n`, `-n=value`, `-nvalue` or one member of a cluster
    Short(char, Option<Tok>),
    /// a plain word left of `--`
    Word(Tok),
    /// a word right of `--`
    PosWord(Tok),
    /// the place of an item an enclosing level has taken (only inside the reference scanner):
    /// nothing can be read across it, an argument name directly in front of it has no value
    Gap,
}

#[derive(Clone, Debug, PartialEq, Eq)]
pub enum Lex {
    Ok(Vec<Ev>, /* index of the source token for every event */ Vec<usize>),
    /// the documentation does not fix the reading of this line
    Unspec(&'static str),
}

/// short names declared anywhere in the tree, split by role
pub fn declared_shorts(root: &Level) -> (Vec<char>, Vec<char>) {
    let mut flags = vec![];
    let mut args = vec![];
    root.walk(
        &mut |l, _| {
            for n in &l.named {
                for s in &n.names.shorts {
                    if n.kind.is_arg() {
                        args.push(*s)
                    } else {
                        flags.push(*s)
                    }
                }
            }
        },
        0,
    );
    (flags, args)
}

pub fn lex(argv: &[Tok], flags: &[char], args: &[char]) -> Lex {
    let mut evs = vec![];
    let mut src = vec![];
    let mut dd = false;
    for (ti, t) in argv.iter().enumerate() {
        let b = &t.0;
        if dd {
            evs.push(Ev::PosWord(t.clone()));
            src.push(ti);
            continue;
        }
        if b == b"--" {
            dd = true;
            continue;
        }
        if b.starts_with(b"--") {
            let rest = &b[2..];
            let (name, val) = match rest.iter().position(|c| *c == b'=') {
                Some(p) => (&rest[..p], Some(Tok(rest[p + 1..].to_vec()))),
                None => (rest, None),
            };
            let name = match std::str::from_utf8(name) {
                Ok(n) if !n.is_empty() => n.to_string(),
                _ => return Lex::Unspec("long name empty or not utf8"),
            };
            evs.push(Ev::Long(name, val));
            src.push(ti);
            continue;
        }
        if b.len() >= 2 && b[0] == b'-' {
            match lex_short_item(&b[1..], flags, args) {
                Ok(es) => {
                    for e in es {
                        evs.push(e);
                        src.push(ti);
                    }
                }
                Err(w) => return Lex::Unspec(w),
            }
            continue;
        }
        evs.push(Ev::Word(t.clone()));
        src.push(ti);
    }
    Lex::Ok(evs, src)
}

/// Documented reading of a single-dash item `-X…` (body = bytes after the dash):
/// `-n`, `-n=value`, or a cluster of declared flags optionally ending in a declared argument
/// whose value is attached (`-abnVALUE`, `-abn=VALUE`). Values are arbitrary bytes.
fn lex_short_item(body: &[u8], flags: &[char], args: &[char]) -> Result<Vec<Ev>, &'static str> {
    let c0 = decode_first(body).ok_or("short name not utf8")?;
    let l0 = c0.len_utf8();
    if body.len() == l0 {
        return Ok(vec![Ev::Short(c0, None)]);
    }
    if body[l0] == b'=' {
        return Ok(vec![Ev::Short(c0, Some(Tok(body[l0 + 1..].to_vec())))]);
    }
    let mut out = vec![];
    let mut off = 0;
    while off < body.len() {
        let c = decode_first(&body[off..]).ok_or("short name not utf8")?;
        let f = flags.contains(&c);
        let a = args.contains(&c);
        if f && a {
            return Err("ambiguous short");
        }
        if !f && !a {
            return Err("undeclared letter in multi-char short");
        }
        off += c.len_utf8();
        if f {
            out.push(Ev::Short(c, None));
            continue;
        }
        let rest = &body[off..];
        if rest.is_empty() {
            out.push(Ev::Short(c, None));
        } else if rest[0] == b'=' {
            out.push(Ev::Short(c, Some(Tok(rest[1..].to_vec()))));
        } else {
            out.push(Ev::Short(c, Some(Tok(rest.to_vec()))));
        }
        break;
    }
    Ok(out)
}

fn decode_first(b: &[u8]) -> Option<char> {
    for l in 1..=4.min(b.len()) {
        if let Ok(s) = std::str::from_utf8(&b[..l]) {
            return s.chars().next();
        }
    }
    None
}

// ------------------------------------------------------------------------------------------
// reference scanner
// ------------------------------------------------------------------------------------------
#[derive(Clone, Debug, PartialEq, Eq)]
pub enum Out {
    Ok(Val),
    Fail,
    /// usage printed on stdout: a level with `fallback_to_usage` that received no items and fails
    Usage,
    Unspec(&'static str),
}

pub type Env = BTreeMap<String, Tok>;

pub struct Model<'a> {
    pub root: &'a Level,
    pub flags: Vec<char>,
    pub args: Vec<char>,
    /// default help/version names are reserved: lines using them are "help and version requests aside"
    pub help_aside: bool,
}

impl<'a> Model<'a> {
    pub fn new(root: &'a Level) -> Self {
        let (mut flags, args) = declared_shorts(root);
        flags.push('h');
        flags.push('V');
        Model { root, flags, args, help_aside: true }
    }

    pub fn lex(&self, argv: &[Tok]) -> Lex {
        lex(argv, &self.flags, &self.args)
    }

    pub fn run(&self, argv: &[Tok], env: &Env) -> Out {
        let (evs, _) = match self.lex(argv) {
            Lex::Ok(e, s) => (e, s),
            Lex::Unspec(w) => return Out::Unspec(w),
        };
        if self.help_aside {
            for e in &evs {
                match e {
                    Ev::Long(n, _) if n == "help" || n == "version" => return Out::Unspec("help/version request"),
                    Ev::Short(c, _) if *c == 'h' || *c == 'V' => return Out::Unspec("help/version request"),
                    _ => {}
                }
            }
        }
        parse_level(self.root, &[], &evs, env)
    }
}

fn env_lookup(n: &Names, env: &Env) -> Option<Tok> {
    n.envs.iter().find_map(|e| env.get(e).cloned())
}

pub fn parse_level(l: &Level, anc: &[&Level], evs: &[Ev], env: &Env) -> Out {
    let r = parse_level_inner(l, anc, evs, env);
    // documented: "print help if app was called with no parameters" - only then
    if l.usage_fallback && evs.iter().all(|e| *e == Ev::Gap) && r == Out::Fail {
        return Out::Usage;
    }
    r
}

fn parse_level_inner(l: &Level, anc: &[&Level], evs: &[Ev], env: &Env) -> Out {
    let mut occ: Vec<Vec<Tok>> = vec![vec![]; l.named.len()];
    let mut words: Vec<(Tok, bool)> = vec![];
    let mut i = 0;
    let mut cmd: Option<(&CmdDef, Out)> = None;
    while i < evs.len() {
        let (ix, inline) = match &evs[i] {
            Ev::Long(n, v) => (l.find_named(None, Some(n.as_str())), v.clone()),
            Ev::Short(c, v) => (l.find_named(Some(*c), None), v.clone()),
            Ev::Word(w) => {
                // a command is entered only when its name is the first item the level has not
                // claimed: a surplus occurrence of a single-use item to its left is unclaimed
                let surplus = l.named.iter().zip(occ.iter()).any(|(n, o)| n.kind.single() && o.len() > 1);
                if words.is_empty() && !surplus {
                    if let Some(c) = l.find_cmd(&w.0) {
                        let mut anc2 = anc.to_vec();
                        anc2.push(l);
                        // "the items to its right (other than options the enclosing level itself
                        // declares) are judged by the subcommand's own parser": this level's own
                        // named items written right of the command name are still this level's
                        // (its named parsers run before the command and see the whole line)
                        let mut rest: Vec<Ev> = vec![];
                        let tail = &evs[i + 1..];
                        let mut j = 0;
                        while j < tail.len() {
                            let own = match &tail[j] {
                                Ev::Long(n, v) => l.find_named(None, Some(n.as_str())).map(|ix| (ix, v.clone())),
                                Ev::Short(ch, v) => l.find_named(Some(*ch), None).map(|ix| (ix, v.clone())),
                                _ => None,
                            };
                            // a single-use item takes one occurrence; a further one stays where
                            // it is written and is the sub-command's to judge
                            let own = own.filter(|(ix, _)| !(l.named[*ix].kind.single() && !occ[*ix].is_empty()));
                            match own {
                                Some((ix, inline)) => {
                                    let n = &l.named[ix];
                                    if n.kind.is_arg() {
                                        if let Some(v) = inline {
                                            occ[ix].push(v);
                                            j += 1;
                                        } else {
                                            match tail.get(j + 1) {
                                                Some(Ev::Word(w)) if !n.adjacent => {
                                                    occ[ix].push(w.clone());
                                                    j += 2;
                                                }
                                                _ => return Out::Fail,
                                            }
                                        }
                                    } else {
                                        if inline.is_some() {
                                            return Out::Fail;
                                        }
                                        occ[ix].push(Tok::default());
                                        j += 1;
                                    }
                                }
                                None => {
                                    rest.push(tail[j].clone());
                                    j += 1;
                                    continue;
                                }
                            }
                            if rest.last() != Some(&Ev::Gap) {
                                rest.push(Ev::Gap);
                            }
                        }
                        cmd = Some((c, parse_level(&c.level, &anc2, &rest, env)));
                        break;
                    }
                }
                words.push((w.clone(), false));
                i += 1;
                continue;
            }
            Ev::PosWord(w) => {
                words.push((w.clone(), true));
                i += 1;
                continue;
            }
            Ev::Gap => {
                i += 1;
                continue;
            }
        };
        let ix = match ix {
            Some(ix) => ix,
            None => {
                let (s, lg) = match &evs[i] {
                    Ev::Long(n, _) => (None, Some(n.as_str())),
                    Ev::Short(c, _) => (Some(*c), None),
                    _ => unreachable!(),
                };
                for a in anc {
                    if a.find_named(s, lg).is_some() {
                        return Out::Unspec("enclosing level's option right of a command name");
                    }
                }
                return Out::Fail;
            }
        };
        let n = &l.named[ix];
        if n.kind.is_arg() {
            if let Some(v) = inline {
                occ[ix].push(v);
                i += 1;
            } else {
                match evs.get(i + 1) {
                    Some(Ev::Word(w)) if !n.adjacent => {
                        occ[ix].push(w.clone());
                        i += 2;
                    }
                    _ => return Out::Fail,
                }
            }
        } else {
            if inline.is_some() {
                return Out::Fail;
            }
            occ[ix].push(Tok::default());
            i += 1;
        }
    }
    if let Some((_, Out::Unspec(w))) = &cmd {
        return Out::Unspec(w);
    }
    // the usage printed by an entered command is its final answer (like its help)
    if let Some((_, Out::Usage)) = &cmd {
        return Out::Usage;
    }
    let mut vals = vec![];
    for (n, o) in l.named.iter().zip(occ.iter_mut()) {
        // environment: an item with no occurrence on the line gets one from the first set variable
        if o.is_empty() {
            if let Some(v) = env_lookup(&n.names, env) {
                o.push(if n.kind.is_arg() { v } else { Tok::default() });
            }
        }
        let mut strs: Vec<Val> = vec![];
        if n.kind.is_arg() {
            for x in o.iter() {
                match convert(n.ty, x) {
                    Some(Val::N(k)) if n.guarded && k >= 10 => return Out::Fail,
                    Some(v) => strs.push(v),
                    // present but invalid: the run fails
                    None => return Out::Fail,
                }
            }
        }
        let v = match n.kind {
            Kind::Switch => match o.len() {
                0 => Val::B(false),
                1 => Val::B(true),
                _ => return Out::Fail,
            },
            Kind::Flag => match o.len() {
                0 => Val::s("off"),
                1 => Val::s("on"),
                _ => return Out::Fail,
            },
            Kind::ReqFlag => match o.len() {
                1 => Val::B(true),
                _ => return Out::Fail,
            },
            Kind::Count => Val::N(o.len() as u64),
            Kind::ArgReq => match o.len() {
                1 => strs[0].clone(),
                _ => return Out::Fail,
            },
            Kind::ArgOpt => match o.len() {
                0 => Val::No,
                1 => Val::some(strs[0].clone()),
                _ => return Out::Fail,
            },
            Kind::ArgMany => Val::L(strs),
            Kind::ArgSome => {
                if o.is_empty() {
                    return Out::Fail;
                } else {
                    Val::L(strs)
                }
            }
            Kind::ArgFallback => match o.len() {
                0 => Val::s(DEF_VALUE),
                1 => strs[0].clone(),
                _ => return Out::Fail,
            },
            Kind::ArgLast => {
                if o.is_empty() {
                    return Out::Fail;
                } else {
                    strs.last().unwrap().clone()
                }
            }
        };
        vals.push(v);
    }
    match &l.tail {
        Tail::None => {
            if !words.is_empty() {
                return Out::Fail;
            }
        }
        Tail::Pos(pk) => {
            let mut w = words.into_iter().peekable();
            for k in pk {
                // does the next word suit this positional?
                let suits = |x: Option<&(Tok, bool)>| match (x, k.strict) {
                    (None, _) => false,
                    (Some(_), Strict::Any) => true,
                    (Some((_, right)), Strict::Strict) => *right,
                    (Some((_, right)), Strict::NonStrict) => !*right,
                };
                match k.kind {
                    PosKind::Req => {
                        if suits(w.peek()) {
                            vals.push(Val::S(w.next().unwrap().0))
                        } else {
                            return Out::Fail;
                        }
                    }
                    PosKind::Opt => {
                        if suits(w.peek()) {
                            vals.push(Val::some(Val::S(w.next().unwrap().0)))
                        } else {
                            vals.push(Val::No)
                        }
                    }
                    PosKind::Fallback => {
                        if suits(w.peek()) {
                            vals.push(Val::S(w.next().unwrap().0))
                        } else {
                            vals.push(Val::s(DEF_VALUE))
                        }
                    }
                    PosKind::Many | PosKind::Some => {
                        let mut v = vec![];
                        while suits(w.peek()) {
                            v.push(Val::S(w.next().unwrap().0));
                        }
                        if k.kind == PosKind::Some && v.is_empty() {
                            return Out::Fail;
                        }
                        vals.push(Val::L(v));
                    }
                }
            }
            if w.next().is_some() {
                return Out::Fail;
            }
        }
        Tail::Cmds { wrap, .. } => {
            if !words.is_empty() {
                return Out::Fail;
            }
            match cmd {
                Some((c, Out::Ok(v))) => {
                    let cv = Val::Cmd(c.name.clone(), Box::new(v));
                    vals.push(match wrap {
                        CmdWrap::Optional => Val::some(cv),
                        _ => cv,
                    })
                }
                Some((_, o)) => return o,
                None => match wrap {
                    CmdWrap::Required => return Out::Fail,
                    CmdWrap::Optional => vals.push(Val::No),
                    CmdWrap::Fallback | CmdWrap::PureAlt | CmdWrap::PureFirst => vals.push(Val::s(NOCMD)),
                },
            }
        }
    }
    Out::Ok(Val::T(vals))
}

// ------------------------------------------------------------------------------------------
// alphabets
// ------------------------------------------------------------------------------------------
#[derive(Clone, Copy, Debug, PartialEq, Eq)]
pub enum AlphaStyle {
    /// first short / first long of every item plus the inline forms
    Compact,
    /// every name, every alias, inline forms, clusters
    Full,
}

pub fn alphabet(root: &Level, style: AlphaStyle) -> Vec<Tok> {
    let mut out: Vec<Tok> = toks(&["v", "w", "--", "-z", "--zz"]);
    if style == AlphaStyle::Full {
        out.push(Tok::s("-"));
    }
    let mut flag_shorts = vec![];
    let mut arg_shorts = vec![];
    let mut alias_arg_shorts = vec![];
    root.walk(
        &mut |l, _| {
            for n in &l.named {
                let shorts: Vec<char> = if style == AlphaStyle::Full { n.names.shorts.clone() } else { n.names.shorts.iter().take(1).cloned().collect() };
                let longs: Vec<String> = if style == AlphaStyle::Full { n.names.longs.clone() } else { n.names.longs.iter().take(1).cloned().collect() };
                for (k, s) in shorts.iter().enumerate() {
                    out.push(Tok::s(&format!("-{}", s)));
                    if n.kind.is_arg() {
                        if k == 0 {
                            out.push(Tok::s(&format!("-{}=v", s)));
                            out.push(Tok::s(&format!("-{}w", s)));
                            if style == AlphaStyle::Full {
                                // an explicitly empty value
                                out.push(Tok::s(&format!("-{}=", s)));
                            }
                            arg_shorts.push(*s);
                        } else if k == 1 {
                            // the first (hidden) alias with its value attached, alone and behind a
                            // flag in one item: the tokenizer must know aliases too
                            out.push(Tok::s(&format!("-{}w", s)));
                            alias_arg_shorts.push(*s);
                        }
                    } else if k == 0 {
                        flag_shorts.push(*s);
                    }
                }
                for (k, lg) in longs.iter().enumerate() {
                    out.push(Tok::s(&format!("--{}", lg)));
                    if k == 0 {
                        // inline form also for flags: `--flag=v` must be rejected
                        if n.kind.is_arg() || style == AlphaStyle::Full {
                            out.push(Tok::s(&format!("--{}=v", lg)));
                        }
                        if style == AlphaStyle::Full {
                            // an explicitly empty value: `--name=` (for a flag: still a value)
                            out.push(Tok::s(&format!("--{}=", lg)));
                        }
                    }
                }
            }
            if let Tail::Cmds { cmds, .. } = &l.tail {
                for c in cmds {
                    out.push(Tok::s(&c.name));
                    if style == AlphaStyle::Full {
                        for s in &c.shorts {
                            out.push(Tok::s(&s.to_string()));
                        }
                        for lg in &c.longs {
                            out.push(Tok::s(lg));
                        }
                    }
                }
            }
        },
        0,
    );
    if style == AlphaStyle::Full {
        if flag_shorts.len() >= 2 {
            out.push(Tok::s(&format!("-{}{}", flag_shorts[0], flag_shorts[1])));
        }
        if let (Some(f), Some(a)) = (flag_shorts.first(), arg_shorts.first()) {
            out.push(Tok::s(&format!("-{}{}v", f, a)));
        }
        if let (Some(f), Some(a)) = (flag_shorts.first(), alias_arg_shorts.first()) {
            out.push(Tok::s(&format!("-{}{}v", f, a)));
        }
    }
    out.sort();
    out.dedup();
    // simplest first: shorter tokens first, then lexicographic
    out.sort_by(|a, b| (a.0.len(), &a.0).cmp(&(b.0.len(), &b.0)));
    out
}
