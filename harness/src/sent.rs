//! Sentence generator and bounded deviations for the conventional fragment: reaches vectors of
//! 6–14 items that the token tree Σ^{≤L} cannot, by starting from what the grammar generates and
//! departing from it by at most `d` edit operations ("bound deviations, not depth").
use crate::conv::*;
use crate::def::*;
use std::collections::BTreeSet;

/// every way to write one occurrence of a named item (value v)
fn spellings(n: &Named, v: &str) -> Vec<Vec<Tok>> {
    let mut out = vec![];
    for l in &n.names.longs {
        if n.kind.is_arg() {
            out.push(vec![Tok::s(&format!("--{}={}", l, v))]);
            out.push(vec![Tok::s(&format!("--{}", l)), Tok::s(v)]);
        } else {
            out.push(vec![Tok::s(&format!("--{}", l))]);
        }
    }
    for s in &n.names.shorts {
        if n.kind.is_arg() {
            out.push(vec![Tok::s(&format!("-{}", s)), Tok::s(v)]);
            out.push(vec![Tok::s(&format!("-{}={}", s, v))]);
            out.push(vec![Tok::s(&format!("-{}{}", s, v))]);
        } else {
            out.push(vec![Tok::s(&format!("-{}", s))]);
        }
    }
    out
}

fn counts(k: Kind) -> Vec<usize> {
    match k {
        Kind::Switch | Kind::Flag | Kind::ArgOpt | Kind::ArgFallback => vec![0, 1],
        Kind::ReqFlag | Kind::ArgReq => vec![1],
        Kind::Count | Kind::ArgMany => vec![0, 1, 2],
        Kind::ArgSome | Kind::ArgLast => vec![1, 2],
    }
}

/// the sentences of a level: every combination of legal occurrence counts, occurrences spelled
/// by cycling through the item's spellings, named blocks in declaration and in reverse order,
/// words after the named items (directly, and behind `--`), every command and alias with the
/// sentences of its level
pub fn sentences(l: &Level, top: bool) -> Vec<Vec<Tok>> {
    // named part
    let mut named_variants: Vec<Vec<Vec<Tok>>> = vec![vec![]]; // list of block lists
    for (ix, n) in l.named.iter().enumerate() {
        if !n.names.has_name() {
            continue;
        }
        let sp = spellings(n, "v");
        let mut next = vec![];
        for base in &named_variants {
            for c in counts(n.kind) {
                let mut b = base.clone();
                for j in 0..c {
                    let mut tokens = sp[(j + ix + base.len()) % sp.len()].clone();
                    // distinct values per occurrence
                    for t in tokens.iter_mut() {
                        if let Some(s) = t.utf8() {
                            if s.ends_with('v') && (s == "v" || s.contains("=v") || (s.starts_with('-') && !s.starts_with("--") && s.len() == 3)) {
                                let mut s2 = s.to_string();
                                s2.pop();
                                s2.push_str(&format!("v{}", j + 1));
                                *t = Tok::s(&s2);
                            }
                        }
                    }
                    b.push(tokens);
                }
                next.push(b);
            }
        }
        named_variants = next;
    }
    let mut named_lines: Vec<Vec<Tok>> = vec![];
    for blocks in &named_variants {
        named_lines.push(blocks.iter().flatten().cloned().collect());
        if top && blocks.len() >= 2 {
            named_lines.push(blocks.iter().rev().flatten().cloned().collect());
        }
    }
    // tail part
    let mut tails: Vec<Vec<Tok>> = vec![];
    match &l.tail {
        Tail::None => tails.push(vec![]),
        Tail::Pos(items) => {
            let mut word_counts: Vec<Vec<usize>> = vec![vec![]];
            for it in items {
                let opts = match it.kind {
                    PosKind::Req => vec![1],
                    PosKind::Opt | PosKind::Fallback => vec![0, 1],
                    PosKind::Many => vec![0, 2],
                    PosKind::Some => vec![1, 2],
                };
                let mut next = vec![];
                for w in &word_counts {
                    for o in &opts {
                        let mut w2 = w.clone();
                        w2.push(*o);
                        next.push(w2);
                    }
                }
                word_counts = next;
            }
            for wc in word_counts {
                let n: usize = wc.iter().sum();
                let words: Vec<Tok> = (0..n).map(|i| Tok::s(&format!("w{}", i + 1))).collect();
                tails.push(words.clone());
                if n > 0 && items.iter().all(|i| i.strict != Strict::NonStrict) {
                    let mut t = vec![Tok::s("--")];
                    t.extend(words);
                    tails.push(t);
                }
            }
        }
        Tail::Cmds { cmds, wrap } => {
            if *wrap != CmdWrap::Required {
                tails.push(vec![]);
            }
            for c in cmds {
                let mut names = vec![c.name.clone()];
                names.extend(c.longs.iter().cloned());
                names.extend(c.shorts.iter().map(|s| s.to_string()));
                let subs = sentences(&c.level, false);
                for (k, nm) in names.iter().enumerate() {
                    for (j, s) in subs.iter().enumerate() {
                        // aliases take every other sentence of the sub-level
                        if k > 0 && j % 2 == 1 {
                            continue;
                        }
                        let mut t = vec![Tok::s(nm)];
                        t.extend(s.iter().cloned());
                        tails.push(t);
                    }
                }
            }
        }
    }
    let mut out: BTreeSet<Vec<Tok>> = BTreeSet::new();
    for nl in &named_lines {
        for t in &tails {
            let mut v = nl.clone();
            v.extend(t.iter().cloned());
            out.insert(v);
            // words before the named items (positional tails only)
            if top && matches!(l.tail, Tail::Pos(_)) && !t.is_empty() && t[0].0 != b"--" && !nl.is_empty() {
                let mut v2 = t.clone();
                v2.extend(nl.iter().cloned());
                out.insert(v2);
            }
        }
    }
    out.into_iter().collect()
}

/// every vector within one edit operation of `s`: insert / replace with any token of `sigma`,
/// delete, duplicate, swap neighbours
pub fn deviations(s: &[Tok], sigma: &[Tok], f: &mut dyn FnMut(Vec<Tok>)) {
    let n = s.len();
    for i in 0..=n {
        for t in sigma {
            let mut v = s[..i].to_vec();
            v.push(t.clone());
            v.extend_from_slice(&s[i..]);
            f(v);
        }
    }
    for i in 0..n {
        let mut v = s.to_vec();
        v.remove(i);
        f(v);
        let mut v = s[..=i].to_vec();
        v.push(s[i].clone());
        v.extend_from_slice(&s[i + 1..]);
        f(v);
        for t in sigma {
            if *t != s[i] {
                let mut v = s.to_vec();
                v[i] = t.clone();
                f(v);
            }
        }
        if i + 1 < n && s[i] != s[i + 1] {
            let mut v = s.to_vec();
            v.swap(i, i + 1);
            f(v);
        }
    }
}
