//! Supervisor / worker machinery shared by every check: deterministic sharding of work units
//! over single-threaded worker processes, heartbeats, crash / hang isolation, merging of
//! counters, known-finding matching, replay files, evidence files and exit codes.

use serde::{Deserialize, Serialize};
use serde_json::{json, Value};
use std::collections::BTreeMap;
use std::io::{BufRead, BufReader, Write};
use std::process::{Command, Stdio};
use std::sync::mpsc;
use std::time::{Duration, Instant};

/// root of the verification tree: /verif, or the snapshot a background run works in
pub fn root() -> String {
    std::env::var("BPAFMC_ROOT").unwrap_or_else(|_| "/verif".to_string())
}

#[derive(Clone, Copy, Debug, PartialEq, Eq)]
pub enum Tier {
    Quick,
    Thorough,
}
impl Tier {
    pub fn parse(s: &str) -> Tier {
        match s {
            "thorough" => Tier::Thorough,
            _ => Tier::Quick,
        }
    }
    pub fn name(self) -> &'static str {
        match self {
            Tier::Quick => "quick",
            Tier::Thorough => "thorough",
        }
    }
    pub fn pick<T>(self, q: T, t: T) -> T {
        match self {
            Tier::Quick => q,
            Tier::Thorough => t,
        }
    }
}

#[derive(Clone, Debug, Serialize, Deserialize)]
pub struct Violation {
    pub property: String,
    pub rule: String,
    pub sig: BTreeMap<String, String>,
    pub unit: Value,
    pub case: Value,
    pub expected: String,
    pub observed: String,
    #[serde(default)]
    pub size: usize,
}
impl Violation {
    pub fn sig_key(&self) -> String {
        let mut s = format!("{}|{}", self.property, self.rule);
        for (k, v) in &self.sig {
            s.push_str(&format!("|{}={}", k, v));
        }
        s
    }
}

#[derive(Default, Serialize, Deserialize)]
pub struct Summary {
    pub evaluations: u64,
    pub states: u64,
    pub transitions: u64,
    pub validated: u64,
    pub nontrivial: u64,
    pub skipped: u64,
    pub units: u64,
    pub counters: BTreeMap<String, u64>,
    pub samples: Vec<Value>,
    /// signature key -> (count, smallest witness)
    pub violations: BTreeMap<String, (u64, Violation)>,
    pub capped: bool,
}
impl Summary {
    pub fn merge(&mut self, o: Summary) {
        self.evaluations += o.evaluations;
        self.states += o.states;
        self.transitions += o.transitions;
        self.validated += o.validated;
        self.nontrivial += o.nontrivial;
        self.skipped += o.skipped;
        self.units += o.units;
        self.capped |= o.capped;
        for (k, v) in o.counters {
            *self.counters.entry(k).or_insert(0) += v;
        }
        for s in o.samples {
            if self.samples.len() < 12 {
                self.samples.push(s);
            }
        }
        for (k, (n, v)) in o.violations {
            match self.violations.get_mut(&k) {
                Some(e) => {
                    e.0 += n;
                    if v.size < e.1.size {
                        e.1 = v;
                    }
                }
                None => {
                    self.violations.insert(k, (n, v));
                }
            }
        }
    }
}

pub struct Ctx {
    pub tier: Tier,
    pub seed: u64,
    pub s: Summary,
    pub trace: bool,
    pub replaying: bool,
    ticks: u64,
    last_tick: Instant,
    sample_slots: usize,
}
impl Ctx {
    pub fn new(tier: Tier, seed: u64) -> Ctx {
        Ctx { tier, seed, s: Summary::default(), trace: false, replaying: false, ticks: 0, last_tick: Instant::now(), sample_slots: 3 }
    }
    /// called before a case is executed; in trace mode prints the case so that the supervisor
    /// knows which one killed the process
    #[inline]
    pub fn begin_case(&mut self, f: impl FnOnce() -> Value) {
        if self.trace {
            let v = f();
            let out = std::io::stdout();
            let mut l = out.lock();
            let _ = writeln!(l, "V {}", v);
            let _ = l.flush();
        }
        self.ticks += 1;
        if self.ticks & 0x3f == 0 && self.last_tick.elapsed() > Duration::from_secs(2) {
            self.last_tick = Instant::now();
            let out = std::io::stdout();
            let mut l = out.lock();
            let _ = writeln!(l, "T");
            let _ = l.flush();
        }
    }
    #[inline]
    pub fn count(&mut self, k: &str) {
        self.count_n(k, 1);
    }
    pub fn count_n(&mut self, k: &str, n: u64) {
        match self.s.counters.get_mut(k) {
            Some(v) => *v += n,
            None => {
                self.s.counters.insert(k.to_string(), n);
            }
        }
    }
    pub fn sample(&mut self, f: impl FnOnce() -> Value) {
        if self.s.samples.len() < self.sample_slots {
            self.s.samples.push(f());
        }
    }
    pub fn wants_sample(&self) -> bool {
        self.s.samples.len() < self.sample_slots
    }
    pub fn violation(&mut self, mut v: Violation) {
        if v.size == 0 {
            v.size = v.case.to_string().len() + v.unit.to_string().len();
        }
        let k = v.sig_key();
        match self.s.violations.get_mut(&k) {
            Some(e) => {
                e.0 += 1;
                if v.size < e.1.size {
                    e.1 = v;
                }
            }
            None => {
                self.s.violations.insert(k, (1, v));
            }
        }
    }
}

pub trait Check: Sync {
    fn id(&self) -> &'static str;
    /// evidence level
    fn level(&self) -> &'static str;
    /// deterministic list of work units (definitions) for a tier
    fn units(&self, tier: Tier, seed: u64) -> Vec<Value>;
    fn run_unit(&self, unit: &Value, ctx: &mut Ctx);
    /// re-run exactly one case; must push a violation iff it still fails
    fn replay(&self, unit: &Value, case: &Value, ctx: &mut Ctx);
    fn rule(&self) -> String;
    fn bounds(&self, tier: Tier) -> Value;
    fn assumptions(&self) -> Vec<String> {
        vec![]
    }
    /// true when no cap was hit and the stated finite space was enumerated completely
    fn exhaustive(&self, _tier: Tier) -> bool {
        true
    }
    /// run once in the supervisor before workers start (extra builds etc.)
    fn prepare(&self, _tier: Tier) -> Result<(), String> {
        Ok(())
    }
    /// worker crash / hang is a property violation (C04) rather than a machinery failure
    fn crash_is_violation(&self) -> bool {
        true
    }
    fn n_workers(&self) -> usize {
        16
    }
}

// ------------------------------------------------------------------------------------------
// worker
// ------------------------------------------------------------------------------------------
pub fn worker_main(check: &dyn Check, tier: Tier, seed: u64, shard: usize, n: usize, trace_unit: Option<usize>) {
    crate::run::install_panic_hook();
    let units = check.units(tier, seed);
    let mut ctx = Ctx::new(tier, seed);
    let out = std::io::stdout();
    for (i, u) in units.iter().enumerate() {
        match trace_unit {
            Some(t) => {
                if t != i {
                    continue;
                }
                ctx.trace = true;
            }
            None => {
                if i % n != shard {
                    continue;
                }
            }
        }
        {
            let mut l = out.lock();
            let _ = writeln!(l, "H {}", i);
            let _ = l.flush();
        }
        ctx.s.units += 1;
        check.run_unit(u, &mut ctx);
    }
    let mut l = out.lock();
    let _ = writeln!(l, "R {}", serde_json::to_string(&ctx.s).unwrap());
    let _ = l.flush();
}

// ------------------------------------------------------------------------------------------
// supervisor
// ------------------------------------------------------------------------------------------
enum Msg {
    Line(usize, String),
    Eof(usize),
}

struct WorkerState {
    last_unit: Option<usize>,
    last_case: Option<String>,
    last_seen: Instant,
    result: Option<Summary>,
    done: bool,
    killed_for_stall: bool,
}

fn spawn_worker(exe: &std::path::Path, id: &str, tier: Tier, seed: u64, shard: usize, n: usize, trace_unit: Option<usize>) -> std::process::Child {
    let mut c = Command::new(exe);
    c.arg("worker").arg(id).arg(tier.name()).arg(seed.to_string()).arg(shard.to_string()).arg(n.to_string());
    if let Some(t) = trace_unit {
        c.arg(t.to_string());
    }
    scrub_env(&mut c);
    c.stdin(Stdio::null()).stdout(Stdio::piped()).stderr(Stdio::null());
    c.spawn().expect("spawn worker")
}

/// every worker runs with a fixed, minimal environment
pub fn scrub_env(c: &mut Command) {
    c.env_clear();
    c.env("PATH", "/usr/local/bin:/usr/bin:/bin");
    c.env("HOME", "/nonexistent");
    c.env("LANG", "C");
    c.env("NO_COLOR", "1");
    if let Ok(v) = std::env::var("BPAFMC_ROOT") {
        c.env("BPAFMC_ROOT", v);
    }
}

struct CrashInfo {
    unit: usize,
    case: Option<String>,
    how: String,
}

/// run all workers; returns merged summary plus crash reports
fn run_workers(check: &dyn Check, exe: &std::path::Path, tier: Tier, seed: u64, stall: Duration) -> (Summary, Vec<CrashInfo>, bool) {
    let n = check.n_workers();
    let (tx, rx) = mpsc::channel::<Msg>();
    let mut children = Vec::new();
    let mut states: Vec<WorkerState> = Vec::new();
    for shard in 0..n {
        let mut ch = spawn_worker(exe, check.id(), tier, seed, shard, n, None);
        let so = ch.stdout.take().unwrap();
        let tx = tx.clone();
        std::thread::spawn(move || {
            let r = BufReader::with_capacity(1 << 16, so);
            for line in r.lines() {
                match line {
                    Ok(l) => {
                        if tx.send(Msg::Line(shard, l)).is_err() {
                            break;
                        }
                    }
                    Err(_) => break,
                }
            }
            let _ = tx.send(Msg::Eof(shard));
        });
        children.push(ch);
        states.push(WorkerState { last_unit: None, last_case: None, last_seen: Instant::now(), result: None, done: false, killed_for_stall: false });
    }
    drop(tx);
    let mut live = n;
    while live > 0 {
        match rx.recv_timeout(Duration::from_millis(500)) {
            Ok(Msg::Line(i, l)) => {
                let st = &mut states[i];
                st.last_seen = Instant::now();
                if let Some(r) = l.strip_prefix("H ") {
                    st.last_unit = r.trim().parse().ok();
                    st.last_case = None;
                } else if let Some(r) = l.strip_prefix("V ") {
                    st.last_case = Some(r.to_string());
                } else if let Some(r) = l.strip_prefix("R ") {
                    st.result = serde_json::from_str(r).ok();
                }
            }
            Ok(Msg::Eof(i)) => {
                states[i].done = true;
                live -= 1;
            }
            Err(mpsc::RecvTimeoutError::Timeout) => {}
            Err(mpsc::RecvTimeoutError::Disconnected) => break,
        }
        for (i, st) in states.iter_mut().enumerate() {
            if !st.done && !st.killed_for_stall && st.last_seen.elapsed() > stall {
                let _ = children[i].kill();
                st.killed_for_stall = true;
            }
        }
    }
    let mut total = Summary::default();
    let mut crashes = Vec::new();
    let mut machinery_fail = false;
    for (i, mut ch) in children.into_iter().enumerate() {
        let status = ch.wait().ok();
        let st = &mut states[i];
        match st.result.take() {
            Some(r) if status.map_or(false, |s| s.success()) => total.merge(r),
            _ => {
                let how = if st.killed_for_stall {
                    "hang (no progress)".to_string()
                } else {
                    format!("worker died: {:?}", status)
                };
                match st.last_unit {
                    Some(u) => crashes.push(CrashInfo { unit: u, case: None, how }),
                    None => {
                        eprintln!("worker {} failed before its first unit: {}", i, how);
                        machinery_fail = true;
                    }
                }
            }
        }
    }
    (total, crashes, machinery_fail)
}

/// re-run one unit in trace mode to find the exact case that kills the process
fn isolate(check: &dyn Check, exe: &std::path::Path, tier: Tier, seed: u64, unit: usize) -> (Option<String>, String, Option<Summary>) {
    let mut ch = spawn_worker(exe, check.id(), tier, seed, 0, 1, Some(unit));
    let so = ch.stdout.take().unwrap();
    let (tx, rx) = mpsc::channel::<String>();
    std::thread::spawn(move || {
        for l in BufReader::new(so).lines().flatten() {
            if tx.send(l).is_err() {
                break;
            }
        }
    });
    let mut last_case = None;
    let mut result = None;
    let mut how = String::new();
    loop {
        match rx.recv_timeout(Duration::from_secs(10)) {
            Ok(l) => {
                if let Some(r) = l.strip_prefix("V ") {
                    last_case = Some(r.to_string());
                } else if let Some(r) = l.strip_prefix("R ") {
                    result = serde_json::from_str(r).ok();
                }
            }
            Err(mpsc::RecvTimeoutError::Timeout) => {
                let _ = ch.kill();
                how = "hang: a single case made no progress for 10 s".to_string();
                break;
            }
            Err(mpsc::RecvTimeoutError::Disconnected) => break,
        }
    }
    let status = ch.wait().ok();
    if how.is_empty() {
        how = format!("process ended with {:?}", status);
    }
    (last_case, how, result)
}

#[derive(Deserialize, Default)]
struct KnownFile {
    #[serde(default)]
    findings: Vec<KnownFinding>,
    #[serde(default)]
    #[allow(dead_code)]
    fixed: Vec<String>,
}
#[derive(Deserialize, Clone)]
struct KnownFinding {
    id: String,
    property: String,
    rule: String,
    #[serde(rename = "match")]
    matcher: BTreeMap<String, String>,
    witness: Witness,
    what: String,
}
#[derive(Deserialize, Clone)]
struct Witness {
    unit: Value,
    case: Value,
}
impl KnownFinding {
    fn matches(&self, v: &Violation) -> bool {
        v.property == self.property && v.rule == self.rule && self.matcher.iter().all(|(k, val)| v.sig.get(k) == Some(val))
    }
}

pub fn hash_str(s: &str) -> String {
    use std::hash::{Hash, Hasher};
    let mut h = std::collections::hash_map::DefaultHasher::new();
    s.hash(&mut h);
    format!("{:016x}", h.finish())
}

fn write_replay(v: &Violation, count: u64) -> String {
    let dir = format!("{}/replays", root());
    let _ = std::fs::create_dir_all(&dir);
    let path = format!("{}/{}-{}.json", dir, v.property, &hash_str(&v.sig_key())[..12]);
    let body = json!({
        "property": v.property, "rule": v.rule, "sig": v.sig, "unit": v.unit, "case": v.case,
        "expected": v.expected, "observed": v.observed, "occurrences_in_this_run": count,
        "how_to_replay": format!("cd {} && ./check replay {}", root(), path),
    });
    let _ = std::fs::write(&path, serde_json::to_string_pretty(&body).unwrap());
    path
}

/// replay in a fresh process: Some(true) = still fails, Some(false) = passes, None = machinery problem
fn replay_fresh(exe: &std::path::Path, path: &str) -> Option<bool> {
    let mut c = Command::new(exe);
    c.arg("replay").arg(path);
    scrub_env(&mut c);
    let mut ch = c.stdin(Stdio::null()).stdout(Stdio::null()).stderr(Stdio::null()).spawn().ok()?;
    let t0 = Instant::now();
    loop {
        match ch.try_wait() {
            Ok(Some(st)) => {
                return match st.code() {
                    Some(0) => Some(false),
                    Some(1) => Some(true),
                    Some(_) => None,
                    // killed by a signal: for crash-type violations that *is* the failure
                    None => Some(true),
                };
            }
            Ok(None) => {
                if t0.elapsed() > Duration::from_secs(40) {
                    let _ = ch.kill();
                    let _ = ch.wait();
                    // no answer in 40 s: a hang reproduces as a hang
                    return Some(true);
                }
                std::thread::sleep(Duration::from_millis(20));
            }
            Err(_) => return None,
        }
    }
}

pub fn replay_main(checks: &[&dyn Check], path: &str) -> i32 {
    crate::run::install_panic_hook();
    let body: Value = match std::fs::read_to_string(path).ok().and_then(|s| serde_json::from_str(&s).ok()) {
        Some(v) => v,
        None => {
            eprintln!("cannot read replay file {}", path);
            return 2;
        }
    };
    let prop = body["property"].as_str().unwrap_or("");
    let check = match checks.iter().find(|c| c.id() == prop) {
        Some(c) => *c,
        None => {
            eprintln!("unknown property {}", prop);
            return 2;
        }
    };
    let mut ctx = Ctx::new(Tier::Quick, 0);
    ctx.replaying = true;
    check.replay(&body["unit"], &body["case"], &mut ctx);
    if ctx.s.violations.is_empty() {
        println!("replay: property {} holds on this case", prop);
        0
    } else {
        for (_, (_, v)) in &ctx.s.violations {
            println!("replay: rule {} fails\n  expected: {}\n  observed: {}", v.rule, v.expected, v.observed);
        }
        println!("VIOLATION property={} replay={}", prop, path);
        1
    }
}

pub fn supervisor_main(check: &dyn Check, tier: Tier, seed: u64) -> i32 {
    let t0 = Instant::now();
    let exe = std::env::current_exe().expect("current_exe");
    let id = check.id();
    // replay files of earlier runs of this check are stale
    if let Ok(rd) = std::fs::read_dir(format!("{}/replays", root())) {
        for e in rd.flatten() {
            if e.file_name().to_string_lossy().starts_with(&format!("{}-", id)) {
                let _ = std::fs::remove_file(e.path());
            }
        }
    }
    if let Err(e) = check.prepare(tier) {
        eprintln!("machinery failure in prepare: {}", e);
        return 2;
    }
    let stall = Duration::from_secs(tier.pick(120, 600));
    let (mut total, crashes, machinery_fail) = run_workers(check, &exe, tier, seed, stall);
    if machinery_fail {
        eprintln!("machinery failure: a worker could not start");
        return 2;
    }
    // crash isolation
    let mut crash_violations_n: Vec<(u64, Violation)> = Vec::new();
    let units_cache = if crashes.is_empty() { vec![] } else { check.units(tier, seed) };
    // at most 4 units are isolated (all concurrently): one witness per kind of death is what the
    // report needs, the rest would only repeat it
    let isolated: Vec<(usize, String, (Option<String>, String, Option<Summary>))> = std::thread::scope(|sc| {
        let hs: Vec<_> = crashes.iter().take(4).map(|c| {
            let exe = &exe;
            let (unit, how) = (c.unit, c.how.clone());
            sc.spawn(move || (unit, how, isolate(check, exe, tier, seed, unit)))
        }).collect();
        hs.into_iter().filter_map(|h| h.join().ok()).collect()
    });
    let mut seen_outcomes: BTreeMap<String, usize> = BTreeMap::new();
    for (unit, chow, (case, how, partial)) in isolated {
        if let Some(p) = partial {
            // the unit completed in isolation: nondeterministic death => machinery
            total.merge(p);
            eprintln!("machinery failure: unit {} died in a shard ({}) but completes in isolation", unit, chow);
            return 2;
        }
        let case_v: Value = case.as_deref().and_then(|s| serde_json::from_str(s).ok()).unwrap_or(Value::Null);
        let mut sig = BTreeMap::new();
        let outcome = if how.starts_with("hang") { "hang".to_string() } else { "process-death".to_string() };
        sig.insert("outcome".to_string(), outcome.clone());
        if let Some(ix) = seen_outcomes.get(&outcome) {
            let v: &mut (u64, Violation) = &mut crash_violations_n[*ix];
            v.0 += 1;
            continue;
        }
        seen_outcomes.insert(outcome, crash_violations_n.len());
        crash_violations_n.push((1, Violation {
            property: id.to_string(),
            rule: "total".to_string(),
            sig,
            unit: units_cache.get(unit).cloned().unwrap_or(Value::Null),
            case: case_v,
            expected: "the call returns normally".to_string(),
            observed: format!("{} / {} ({} worker(s) of this run ended this way; their remaining units were not explored)", chow, how, crashes.len()),
            size: 0,
        }));
    }
    let crash_violations: Vec<Violation> = crash_violations_n.iter().map(|(_, v)| v.clone()).collect();
    if !crash_violations.is_empty() && !check.crash_is_violation() {
        eprintln!("machinery failure: worker crashed: {}", crash_violations[0].observed);
        return 2;
    }
    drop(crash_violations);
    for (n, v) in crash_violations_n {
        let k = v.sig_key() + &hash_str(&v.unit.to_string());
        total.violations.insert(k, (n, v));
    }

    // known findings
    let known: KnownFile = std::fs::read_to_string(format!("{}/known_findings.json", root())).ok().and_then(|s| serde_json::from_str(&s).ok()).unwrap_or_default();
    let mut known_active: Vec<(KnownFinding, bool)> = Vec::new();
    for k in known.findings.iter().filter(|k| k.property == id) {
        // replay the witness in-process through a temp replay file in a fresh process
        let tmp = format!("{}/replays/.witness-{}-{}.json", root(), id, k.id);
        let _ = std::fs::create_dir_all(format!("{}/replays", root()));
        let body = json!({"property": k.property, "rule": k.rule, "unit": k.witness.unit, "case": k.witness.case});
        let _ = std::fs::write(&tmp, body.to_string());
        let still = replay_fresh(&exe, &tmp) == Some(true);
        let _ = std::fs::remove_file(&tmp);
        known_active.push((k.clone(), still));
    }
    let mut known_hits: BTreeMap<String, u64> = BTreeMap::new();
    let mut unknown: Vec<(u64, Violation)> = Vec::new();
    for (_, (n, v)) in std::mem::take(&mut total.violations) {
        match known_active.iter().find(|(k, active)| *active && k.matches(&v)) {
            Some((k, _)) => *known_hits.entry(k.id.clone()).or_insert(0) += n,
            None => unknown.push((n, v)),
        }
    }
    for (k, active) in &known_active {
        if *active {
            println!("KNOWN-FINDING: property={} {} [{}; {} occurrences in this run]", id, k.what, k.id, known_hits.get(&k.id).copied().unwrap_or(0));
        }
    }

    // report unknown violations, after the determinism guard
    let mut n_viol = 0u64;
    let mut exit = 0;
    unknown.sort_by_key(|(_, v)| v.size);
    if std::env::var("BPAFMC_SIGS").is_ok() {
        for (n, v) in &unknown {
            println!("SIG {} x{} case={}", v.sig_key(), n, v.case.to_string().chars().take(300).collect::<String>());
        }
    }
    let mut printed = 0;
    for (n, v) in &unknown {
        n_viol += n;
        if printed >= 25 {
            if printed < 400 {
                write_replay(v, *n);
                printed += 1;
            }
            continue;
        }
        let path = write_replay(v, *n);
        let a = replay_fresh(&exe, &path);
        let b = replay_fresh(&exe, &path);
        if a != Some(true) || b != Some(true) {
            eprintln!("machinery failure: violation {} does not reproduce deterministically ({:?}, {:?})", path, a, b);
            return 2;
        }
        println!("VIOLATION property={} replay={}", id, path);
        println!("  rule={} sig={:?} occurrences={}\n  expected: {}\n  observed: {}", v.rule, v.sig, n, v.expected, v.observed.chars().take(400).collect::<String>());
        printed += 1;
        exit = 1;
    }

    // vacuity guard
    if exit == 0 && (total.evaluations == 0 || total.units == 0) {
        eprintln!("machinery failure: nothing was explored");
        return 2;
    }

    // evidence
    let wall = t0.elapsed().as_secs_f64();
    let mut samples = total.samples.clone();
    if samples.is_empty() {
        samples.push(json!("no sample recorded"));
    }
    let evidence = json!({
        "property_id": id,
        "tier": tier.name(),
        "seed": seed,
        "level": check.level(),
        "coverage": {
            "evaluations": total.evaluations.max(crashes.len() as u64),
            "distinct_nontrivial": total.nontrivial,
            "rule": check.rule(),
            "samples": samples,
            "states": total.states.max(1),
            "transitions": total.transitions.max(1),
            "traces_validated_against_impl": total.validated,
            "programs": total.units,
            "disagreements_checked": n_viol + known_hits.values().sum::<u64>(),
            "skipped_outside_quantifier": total.skipped,
            "exhaustive": check.exhaustive(tier) && !total.capped && crashes.is_empty(),
            "bounds": check.bounds(tier),
            "counters": total.counters,
            "known_findings_matched": known_hits,
            "explanation": check.rule(),
        },
        "assumptions": check.assumptions(),
        "wall_s": (wall * 100.0).round() / 100.0,
        "violations": n_viol,
    });
    // BPAFMC_EVIDENCE redirects the evidence of runs against a modified repository (seeded
    // changes) so that the committed files always describe the unchanged tree
    let ev_dir = std::env::var("BPAFMC_EVIDENCE").unwrap_or_else(|_| format!("{}/evidence", root()));
    let _ = std::fs::create_dir_all(&ev_dir);
    let ev_path = format!("{}/{}.json", ev_dir, id);
    if let Err(e) = std::fs::write(&ev_path, serde_json::to_string_pretty(&evidence).unwrap()) {
        eprintln!("machinery failure: cannot write evidence: {}", e);
        return 2;
    }
    println!(
        "{} {}: units={} evaluations={} nontrivial={} states={} transitions={} skipped={} violations={} known={} wall={:.1}s",
        id, tier.name(), total.units, total.evaluations, total.nontrivial, total.states, total.transitions, total.skipped, n_viol, known_hits.values().sum::<u64>(), wall
    );
    exit
}
