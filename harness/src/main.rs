use bpafmc::sup::*;

fn main() {
    // child mode of C11: the whole argument vector belongs to the parser under test
    if let Ok(id) = std::env::var("BPAFMC_CHILD") {
        bpafmc::checks::c11::child_main(id.parse().unwrap_or(0));
    }
    let args: Vec<String> = std::env::args().collect();
    let checks = bpafmc::all_checks();
    let find = |id: &str| checks.iter().copied().find(|c| c.id() == id);
    let seed_env = std::env::var("VERIF_SEED").ok().and_then(|s| s.parse::<u64>().ok()).unwrap_or(0);
    match args.get(1).map(|s| s.as_str()) {
        Some("check") => {
            let id = args.get(2).cloned().unwrap_or_default();
            let tier = Tier::parse(args.get(3).map(|s| s.as_str()).or(std::env::var("VERIF_TIER").ok().as_deref()).unwrap_or("quick"));
            match find(&id) {
                Some(c) => std::process::exit(supervisor_main(c, tier, seed_env)),
                None => {
                    eprintln!("unknown check {}", id);
                    std::process::exit(2)
                }
            }
        }
        Some("worker") => {
            let id = &args[2];
            let tier = Tier::parse(&args[3]);
            let seed: u64 = args[4].parse().unwrap();
            let shard: usize = args[5].parse().unwrap();
            let n: usize = args[6].parse().unwrap();
            let trace = args.get(7).and_then(|s| s.parse().ok());
            worker_main(find(id).expect("check"), tier, seed, shard, n, trace);
        }
        Some("replay") => {
            std::process::exit(replay_main(&checks, &args[2]));
        }
        Some("run") => {
            // bpafmc run '<opts json>' args..   (debugging aid)
            bpafmc::run::install_panic_hook();
            let o: bpafmc::def::Opts = match serde_json::from_str(&args[2]) {
                Ok(o) => o,
                Err(e) => {
                    eprintln!("bad opts json: {}", e);
                    std::process::exit(2);
                }
            };
            let p = match bpafmc::run::build_checked(&o) {
                Ok(p) => p,
                Err(e) => {
                    eprintln!("panic while building: {}", e);
                    std::process::exit(2);
                }
            };
            let argv: Vec<bpafmc::def::Tok> = args[3..].iter().map(|s| bpafmc::def::Tok::dec(s)).collect();
            match bpafmc::run::run(&p, &argv) {
                bpafmc::run::Outcome::Stdout { text, .. } => println!("STDOUT\n{}", text),
                bpafmc::run::Outcome::Stderr(t) => println!("STDERR\n{}", t),
                o => println!("{:?}", o),
            }
        }
        #[cfg(feature = "full")]
        Some("docs") => {
            bpafmc::run::install_panic_hook();
            let o: bpafmc::def::Opts = serde_json::from_str(&args[2]).expect("json");
            let p = bpafmc::def::build_opts(&o);
            match args[3].as_str() {
                "md" => println!("{}", p.render_markdown("app")),
                "html" => println!("{}", p.render_html("app")),
                _ => println!("{}", p.render_manpage("app", bpaf::doc::Section::General, None, None, None)),
            }
        }
        Some("c20-digests") => {
            bpafmc::checks::c20::digests_main(Tier::parse(&args[2]), args[3].parse().unwrap(), args[4].parse().unwrap(), args[5].parse().unwrap());
        }
        Some("c20-dump") => {
            bpafmc::checks::c20::dump_main(Tier::parse(&args[2]), args[3].parse().unwrap(), args[4].parse().unwrap());
        }
        Some("list") => {
            for c in &checks {
                println!("{}", c.id());
            }
        }
        _ => {
            eprintln!("usage: bpafmc check <Cxx> [quick|thorough] | replay <file> | list");
            std::process::exit(2);
        }
    }
}
