//! C19 — adjacent groups consume contiguous blocks only (block-scanner reference model).
use crate::def::*;
use crate::explore::*;
use crate::run::*;
use crate::sup::*;
use serde::{Deserialize, Serialize};
use serde_json::{json, Value};
use std::collections::BTreeMap;

pub struct C19;

#[derive(Clone, Copy, Debug, PartialEq, Eq, Serialize, Deserialize)]
pub enum G {
    Point1,
    Point2,
    Point3,
    Rect,
    Mix,
    /// `--x X --y Y`: the group starts with a valued item (two command-line items wide)
    ArgPair,
    /// `--rect (--w W | --s S) --color C` beside a top-level `--s SCALE` declared after the group:
    /// a member that is a choice, and a name shared with the surrounding level
    AltRect,
    /// a choice between two different adjacent groups: `--rect --w W | --circ --r R`
    TwoKinds,
}
#[derive(Clone, Copy, Debug, PartialEq, Eq, Serialize, Deserialize)]
pub enum W {
    Bare,
    Opt,
    Many,
}
#[derive(Clone, Copy, Debug, PartialEq, Eq, Serialize, Deserialize)]
pub enum T {
    None,
    Opt,
    Many,
}
#[derive(Clone, Copy, Debug, PartialEq, Eq, Serialize, Deserialize)]
pub enum V {
    Absent,
    Before,
    After,
}
#[derive(Clone, Copy, Debug, Serialize, Deserialize)]
pub struct Def {
    pub g: G,
    pub w: W,
    pub t: T,
    pub v: V,
    pub len: usize,
}

fn group(g: G) -> P {
    let point = P::ReqFlag(Names::long("point"));
    let pos = |m: &str| P::Pos { ty: Ty::Os, strict: Strict::Any, metavar: m.into(), help: None };
    let arg = |n: &str| P::arg(Names::long(n), Ty::Os);
    match g {
        G::Point1 => P::Adj(vec![point, pos("X")]),
        G::Point2 => P::Adj(vec![point, pos("X"), pos("Y")]),
        G::Point3 => P::Adj(vec![point, pos("X"), pos("Y"), pos("Z")]),
        G::Rect => P::Adj(vec![point, arg("w"), arg("h"), P::Switch(Names::long("o"))]),
        G::Mix => P::Adj(vec![point, arg("w"), pos("X")]),
        G::ArgPair => P::Adj(vec![arg("x"), arg("y")]),
        G::TwoKinds => P::Alt(vec![
            P::Map(P::Adj(vec![P::ReqFlag(Names::long("rect")), arg("w")]).bx(), "R".into()),
            P::Map(P::Adj(vec![P::ReqFlag(Names::long("circ")), arg("r")]).bx(), "C".into()),
        ]),
        G::AltRect => P::Adj(vec![P::ReqFlag(Names::long("rect")), P::Alt(vec![P::Map(arg("w").bx(), "W".into()), P::Map(arg("s").bx(), "S".into())]), arg("color")]),
    }
}

pub fn to_opts(d: &Def) -> Opts {
    let g = group(d.g);
    let gw = match d.w {
        W::Bare => g,
        W::Opt => g.opt(),
        W::Many => g.many(),
    };
    let v = P::Switch(Names::short('v'));
    let mut fields = vec![];
    if d.v == V::Before {
        fields.push(v.clone());
    }
    fields.push(gw);
    if d.g == G::AltRect {
        fields.push(P::arg(Names::long("s"), Ty::Os).opt());
    }
    if d.v == V::After {
        fields.push(v);
    }
    match d.t {
        T::None => {}
        T::Opt => fields.push(P::pos(Ty::Os).opt()),
        T::Many => fields.push(P::pos(Ty::Os).many()),
    }
    Opts::new(P::Seq(fields))
}

pub fn alphabet_for(g: G) -> Vec<Tok> {
    match g {
        G::Point1 | G::Point2 | G::Point3 => toks(&["--point", "1", "2", "-v", "--zz", "--"]),
        G::Rect => toks(&["--point", "--w", "--w=1", "--h", "--o", "2", "-v", "--"]),
        G::Mix => toks(&["--point", "--w", "--w=1", "2", "3", "-v", "--"]),
        G::ArgPair => toks(&["--x", "--x=1", "--y", "--y=2", "3", "-v", "--"]),
        G::AltRect => toks(&["--rect", "--w=1", "--s=2", "--s", "--color=r", "3", "-v"]),
        G::TwoKinds => toks(&["--rect", "--circ", "--w=1", "--r=2", "--w", "3", "-v"]),
    }
}

fn is_word(t: &Tok) -> bool {
    !t.0.starts_with(b"-") || t.0 == b"-"
}

/// reference block scanner: Some(value) = accept, None = reject
pub fn model(d: &Def, argv: &[Tok]) -> Option<Val> {
    let mut v = 0;
    let mut blocks: Vec<Val> = vec![];
    let mut words: Vec<Val> = vec![];
    let mut scale: Vec<Val> = vec![];
    let mut i = 0;
    let mut dd = false;
    let s = |t: &Tok| Val::S(t.clone());
    while i < argv.len() {
        let t = &argv[i];
        if !dd && t.0 == b"--" {
            dd = true;
            i += 1;
            continue;
        }
        if dd {
            words.push(s(t));
            i += 1;
            continue;
        }
        if t.0 == b"-v" {
            if d.v == V::Absent {
                return None;
            }
            v += 1;
            i += 1;
            continue;
        }
        if d.g == G::ArgPair && (t.0 == b"--x" || t.0.starts_with(b"--x=")) {
            let plain = |i: usize| i < argv.len() && argv[i].0 != b"--" && is_word(&argv[i]);
            let x = if t.0 == b"--x" {
                if !plain(i + 1) {
                    return None;
                }
                i += 2;
                s(&argv[i - 1])
            } else {
                i += 1;
                Val::S(Tok(t.0[4..].to_vec()))
            };
            // the second member follows at once
            let y = match argv.get(i) {
                Some(n) if n.0 == b"--y" => {
                    if !plain(i + 1) {
                        return None;
                    }
                    i += 2;
                    s(&argv[i - 1])
                }
                Some(n) if n.0.starts_with(b"--y=") => {
                    i += 1;
                    Val::S(Tok(n.0[4..].to_vec()))
                }
                _ => return None,
            };
            blocks.push(Val::T(vec![x, y]));
            continue;
        }
        if d.g == G::TwoKinds && (t.0 == b"--rect" || t.0 == b"--circ") {
            let plain = |i: usize| i < argv.len() && argv[i].0 != b"--" && is_word(&argv[i]);
            let (tag, name) = if t.0 == b"--rect" { ("R", "w") } else { ("C", "r") };
            i += 1;
            let v = match argv.get(i) {
                Some(n) if n.0 == format!("--{}", name).as_bytes() => {
                    if !plain(i + 1) {
                        return None;
                    }
                    i += 2;
                    s(&argv[i - 1])
                }
                Some(n) if n.0.starts_with(format!("--{}=", name).as_bytes()) => {
                    i += 1;
                    Val::S(Tok(n.0[name.len() + 3..].to_vec()))
                }
                _ => return None,
            };
            blocks.push(Val::tag(tag, Val::T(vec![Val::B(true), v])));
            continue;
        }
        if d.g == G::AltRect {
            let plain = |i: usize| i < argv.len() && argv[i].0 != b"--" && is_word(&argv[i]);
            // an argument occurrence at position i: (name, value, width)
            let occ = |i: usize| -> Option<(&'static str, Val, usize)> {
                let t = argv.get(i)?;
                for n in ["w", "s", "color"] {
                    if t.0 == format!("--{}", n).as_bytes() {
                        return if plain(i + 1) { Some((n, s(&argv[i + 1]), 2)) } else { None };
                    }
                    if let Some(v) = t.0.strip_prefix(format!("--{}=", n).as_bytes()) {
                        return Some((n, Val::S(Tok(v.to_vec())), 1));
                    }
                }
                None
            };
            if t.0 == b"--rect" {
                i += 1;
                let (mut dim, mut color) = (None, None);
                while let Some((n, v, w)) = occ(i) {
                    if n == "color" && color.is_none() {
                        color = Some(v);
                    } else if n != "color" && dim.is_none() {
                        dim = Some(Val::tag(if n == "w" { "W" } else { "S" }, v));
                    } else {
                        break;
                    }
                    i += w;
                }
                match (dim, color) {
                    (Some(dv), Some(c)) => blocks.push(Val::T(vec![Val::B(true), dv, c])),
                    _ => return None,
                }
                continue;
            }
            // outside a block only the top-level --s is declared
            match occ(i) {
                Some(("s", v, w)) => {
                    scale.push(v);
                    i += w;
                    continue;
                }
                Some(_) => return None,
                None => {}
            }
            if t.0 == b"--s" || t.0 == b"--w" || t.0 == b"--color" {
                return None; // a name without its value
            }
        }
        if t.0 == b"--point" {
            i += 1;
            let plain = |i: usize| i < argv.len() && argv[i].0 != b"--" && is_word(&argv[i]);
            match d.g {
                G::Point1 | G::Point2 | G::Point3 => {
                    let n = match d.g {
                        G::Point1 => 1,
                        G::Point2 => 2,
                        _ => 3,
                    };
                    let mut xs = vec![Val::B(true)];
                    for _ in 0..n {
                        if plain(i) {
                            xs.push(s(&argv[i]));
                            i += 1;
                        } else {
                            return None;
                        }
                    }
                    blocks.push(Val::T(xs));
                }
                G::Rect => {
                    let (mut w, mut h, mut o) = (None, None, false);
                    loop {
                        if i >= argv.len() {
                            break;
                        }
                        let t = &argv[i];
                        if t.0 == b"--w" && w.is_none() {
                            if plain(i + 1) {
                                w = Some(s(&argv[i + 1]));
                                i += 2;
                                continue;
                            } else {
                                return None;
                            }
                        }
                        if let Some(x) = t.0.strip_prefix(b"--w=") {
                            if w.is_none() {
                                w = Some(Val::S(Tok(x.to_vec())));
                                i += 1;
                                continue;
                            }
                        }
                        if t.0 == b"--h" && h.is_none() {
                            if plain(i + 1) {
                                h = Some(s(&argv[i + 1]));
                                i += 2;
                                continue;
                            } else {
                                return None;
                            }
                        }
                        if t.0 == b"--o" && !o {
                            o = true;
                            i += 1;
                            continue;
                        }
                        break;
                    }
                    match (w, h) {
                        (Some(w), Some(h)) => blocks.push(Val::T(vec![Val::B(true), w, h, Val::B(o)])),
                        _ => return None,
                    }
                }
                G::ArgPair | G::AltRect | G::TwoKinds => return None, // `--point` is not declared
                G::Mix => {
                    let (mut w, mut x) = (None, None);
                    loop {
                        if i >= argv.len() {
                            break;
                        }
                        let t = &argv[i];
                        if t.0 == b"--w" && w.is_none() {
                            if plain(i + 1) {
                                w = Some(s(&argv[i + 1]));
                                i += 2;
                                continue;
                            } else {
                                return None;
                            }
                        }
                        if let Some(y) = t.0.strip_prefix(b"--w=") {
                            if w.is_none() {
                                w = Some(Val::S(Tok(y.to_vec())));
                                i += 1;
                                continue;
                            }
                        }
                        if plain(i) && x.is_none() {
                            x = Some(s(t));
                            i += 1;
                            continue;
                        }
                        break;
                    }
                    match (w, x) {
                        (Some(w), Some(x)) => blocks.push(Val::T(vec![Val::B(true), w, x])),
                        _ => return None,
                    }
                }
            }
            continue;
        }
        if is_word(t) {
            words.push(s(t));
            i += 1;
            continue;
        }
        return None; // unknown item or stray group member
    }
    if v > 1 {
        return None;
    }
    let gw = match d.w {
        W::Bare => {
            if blocks.len() != 1 {
                return None;
            }
            blocks.pop().unwrap()
        }
        W::Opt => match blocks.len() {
            0 => Val::No,
            1 => Val::some(blocks.pop().unwrap()),
            _ => return None,
        },
        W::Many => Val::L(blocks),
    };
    let mut fields = vec![];
    if d.v == V::Before {
        fields.push(Val::B(v == 1));
    }
    fields.push(gw);
    if d.g == G::AltRect {
        match scale.len() {
            0 => fields.push(Val::No),
            1 => fields.push(Val::some(scale.pop().unwrap())),
            _ => return None,
        }
    }
    if d.v == V::After {
        fields.push(Val::B(v == 1));
    }
    match d.t {
        T::None => {
            if !words.is_empty() {
                return None;
            }
        }
        T::Opt => match words.len() {
            0 => fields.push(Val::No),
            1 => fields.push(Val::some(words.pop().unwrap())),
            _ => return None,
        },
        T::Many => fields.push(Val::L(words)),
    }
    Some(Val::T(fields))
}

pub fn defs(len: usize, with_p3: bool) -> Vec<Def> {
    let mut out = vec![];
    let mut gs = vec![G::Point1, G::Point2, G::Rect, G::Mix];
    if with_p3 {
        gs.push(G::Point3);
        gs.push(G::ArgPair);
        gs.push(G::AltRect);
        gs.push(G::TwoKinds);
    }
    for g in gs {
        for w in [W::Bare, W::Opt, W::Many] {
            for t in [T::None, T::Opt, T::Many] {
                for v in [V::Absent, V::Before, V::After] {
                    out.push(Def { g, w, t, v, len });
                }
            }
        }
    }
    out
}

/// group shapes for other checks (C04, C05, C10): (definition, family label)
pub fn group_shapes(_seed: u64) -> Vec<(Opts, String)> {
    let mut out = vec![];
    for d in defs(0, false) {
        if d.v == V::After {
            continue;
        }
        out.push((to_opts(&d), format!("adjacent-{:?}", d.g)));
    }
    // adjacent command chain
    let inner = Opts::new(P::Seq(vec![P::Switch(Names::short('x'))]));
    let c = P::Cmd { name: "cmd".into(), shorts: vec![], longs: vec![], inner: Box::new(inner), adjacent: true, help: None };
    out.push((Opts::new(P::Seq(vec![P::Switch(Names::short('v')), c.clone().many()])), "adjacent-command".into()));
    out.push((Opts::new(P::Seq(vec![c.many(), P::pos(Ty::Os).opt()])), "adjacent-command".into()));
    out
}

pub fn group_alphabet(o: &Opts) -> Vec<Tok> {
    let s = serde_json::to_string(o).unwrap();
    if s.contains("\"cmd\"") {
        return toks(&["cmd", "-x", "-v", "w", "--"]);
    }
    if s.contains("\"h\"") {
        return alphabet_for(G::Rect);
    }
    if s.contains("\"w\"") {
        return alphabet_for(G::Mix);
    }
    alphabet_for(G::Point2)
}

// ------------------------------------------------------------------------------------------
// family B: an adjacent command whose sub-parser holds an adjacent group, beside a top-level
// switch: blocks inside blocks
// ------------------------------------------------------------------------------------------
#[derive(Clone, Copy, Debug, Serialize, Deserialize)]
pub struct NestDef {
    pub cmd_wrap: W,
    pub two_values: bool,
    pub inner_switch: bool,
    pub len: usize,
}
pub fn nest_opts(d: &NestDef) -> Opts {
    let pos = |m: &str| P::Pos { ty: Ty::Os, strict: Strict::Any, metavar: m.into(), help: None };
    let mut members = vec![P::ReqFlag(Names::long("point")), pos("X")];
    if d.two_values {
        members.push(pos("Y"));
    }
    let mut inner = vec![];
    if d.inner_switch {
        inner.push(P::Switch(Names::short('x')));
    }
    inner.push(P::Adj(members).many());
    let cmd = P::Cmd { name: "cmd".into(), shorts: vec![], longs: vec![], inner: Box::new(Opts::new(P::Seq(inner))), adjacent: true, help: None };
    let cw = match d.cmd_wrap {
        W::Bare => cmd,
        W::Opt => cmd.opt(),
        W::Many => cmd.many(),
    };
    Opts::new(P::Seq(vec![P::Switch(Names::short('v')), cw]))
}
pub fn nest_alphabet(d: &NestDef) -> Vec<Tok> {
    let mut a = toks(&["cmd", "--point", "1", "2", "-v"]);
    if d.inner_switch {
        a.push(Tok::s("-x"));
    }
    a
}
/// block scanner: `-v` belongs to the top level (once); `cmd` starts a command block made of
/// the contiguous run of `-x` (once) and `--point X [Y]` blocks that follows it
pub fn nest_model(d: &NestDef, argv: &[Tok]) -> Option<Val> {
    let mut v = 0;
    let mut blocks: Vec<Val> = vec![];
    let mut i = 0;
    // a positional member takes any plain word, the command's own name included
    let is_val = |t: &Tok| is_word(t);
    while i < argv.len() {
        let t = &argv[i];
        if t.0 == b"-v" {
            v += 1;
            i += 1;
            continue;
        }
        if t.0 == b"cmd" {
            i += 1;
            let mut x = 0;
            let mut points: Vec<Val> = vec![];
            loop {
                if i < argv.len() && d.inner_switch && argv[i].0 == b"-x" && x == 0 {
                    x += 1;
                    i += 1;
                    continue;
                }
                if i < argv.len() && argv[i].0 == b"--point" {
                    let n = if d.two_values { 2 } else { 1 };
                    let mut vals = vec![Val::B(true)];
                    for k in 0..n {
                        match argv.get(i + 1 + k) {
                            Some(w) if is_val(w) => vals.push(Val::S(w.clone())),
                            _ => return None,
                        }
                    }
                    points.push(Val::T(vals));
                    i += 1 + n;
                    continue;
                }
                break;
            }
            let mut fields = vec![];
            if d.inner_switch {
                fields.push(Val::B(x == 1));
            }
            fields.push(Val::L(points));
            blocks.push(Val::Cmd("cmd".into(), Box::new(Val::T(fields))));
            continue;
        }
        return None;
    }
    if v > 1 {
        return None;
    }
    let cw = match d.cmd_wrap {
        W::Bare => {
            if blocks.len() != 1 {
                return None;
            }
            blocks.pop().unwrap()
        }
        W::Opt => match blocks.len() {
            0 => Val::No,
            1 => Val::some(blocks.pop().unwrap()),
            _ => return None,
        },
        W::Many => Val::L(blocks),
    };
    Some(Val::T(vec![Val::B(v == 1), cw]))
}

fn judge_nest(d: &NestDef, unit: &Value, p: &bpaf::OptionParser<Val>, argv: &[Tok], ctx: &mut Ctx) {
    judge_nest_as("C19", d, unit, p, argv, ctx)
}

/// the same comparison reported under another property (C08 runs the adjacent-command family too)
pub fn judge_nest_as(prop: &str, d: &NestDef, unit: &Value, p: &bpaf::OptionParser<Val>, argv: &[Tok], ctx: &mut Ctx) {
    let m = nest_model(d, argv);
    let r = run(p, argv);
    let ok = match (&m, &r) {
        (Some(a), Outcome::Value(b)) => a == b,
        (None, Outcome::Stderr(t)) => !t.trim().is_empty(),
        _ => false,
    };
    if ok {
        ctx.s.validated += 1;
        ctx.count(if m.is_some() { "nested-accepted" } else { "nested-rejected" });
        if argv.iter().any(|t| t.0 == b"cmd") {
            ctx.s.nontrivial += 1;
        }
        return;
    }
    let mut sig = BTreeMap::new();
    sig.insert("group".to_string(), "nested-in-adjacent-command".to_string());
    sig.insert("wrap".to_string(), format!("{:?}", d.cmd_wrap));
    sig.insert("model".to_string(), if m.is_some() { "accept" } else { "reject" }.to_string());
    sig.insert("observed".to_string(), r.class().to_string());
    ctx.violation(Violation {
        property: prop.into(),
        rule: if m.is_some() { "contiguous-blocks-accepted-with-block-values" } else { "interrupted-or-short-block-fails" }.into(),
        sig,
        unit: unit.clone(),
        case: json!({"argv": argv}),
        expected: match &m {
            Some(v) => format!("value {:?}", v),
            None => "stderr failure".into(),
        },
        observed: r.brief(),
        size: argv.len() * 1000,
    });
}

fn judge(d: &Def, unit: &Value, p: &bpaf::OptionParser<Val>, argv: &[Tok], ctx: &mut Ctx) {
    judge_as("C19", d, unit, p, argv, ctx)
}

/// the same comparison reported under another property (C02 runs the argument-led group too)
pub fn judge_as(prop: &str, d: &Def, unit: &Value, p: &bpaf::OptionParser<Val>, argv: &[Tok], ctx: &mut Ctx) {
    let m = model(d, argv);
    let r = run(p, argv);
    let ok = match (&m, &r) {
        (Some(a), Outcome::Value(b)) => a == b,
        (None, Outcome::Stderr(t)) => !t.trim().is_empty(),
        _ => false,
    };
    if ok {
        ctx.s.validated += 1;
        if m.is_some() {
            ctx.count("accepted");
            if argv.iter().any(|t| t.0 == b"--point" || t.0.starts_with(b"--x")) {
                ctx.s.nontrivial += 1;
            }
            if ctx.wants_sample() && argv.len() >= 4 {
                ctx.sample(|| json!({"def": d, "argv": argv, "model": "accept", "impl": r.brief()}));
            }
        } else {
            ctx.count("rejected");
            if argv.iter().any(|t| t.0 == b"--point" || t.0.starts_with(b"--x")) {
                ctx.s.nontrivial += 1;
            }
        }
        return;
    }
    let mut sig = BTreeMap::new();
    sig.insert("group".to_string(), format!("{:?}", d.g));
    sig.insert("wrap".to_string(), format!("{:?}", d.w));
    sig.insert("tail".to_string(), format!("{:?}", d.t));
    sig.insert("model".to_string(), if m.is_some() { "accept" } else { "reject" }.to_string());
    sig.insert("observed".to_string(), r.class().to_string());
    ctx.violation(Violation {
        property: prop.into(),
        rule: if m.is_some() { "contiguous-blocks-accepted-with-block-values" } else { "interrupted-or-short-block-fails" }.into(),
        sig,
        unit: unit.clone(),
        case: json!({"argv": argv}),
        expected: match &m {
            Some(v) => format!("value {:?}", v),
            None => "stderr failure".into(),
        },
        observed: r.brief(),
        size: argv.len() * 1000,
    });
}

// ------------------------------------------------------------------------------------------
// an option-struct with short names (-r [-t] [-f] -w W): a block written with combined words
// (-rt, -tf, -w1) is the same block as the spelled-out one
// ------------------------------------------------------------------------------------------
fn shortstruct_opts() -> Opts {
    let g = P::Adj(vec![P::ReqFlag(Names::short('r')), P::Switch(Names::short('t')), P::Switch(Names::short('f')), P::arg(Names::short('w'), Ty::Os)]);
    Opts::new(P::Seq(vec![P::Switch(Names::short('v')), g.many()]))
}

/// the ways of joining one or all pairs of neighbouring words of an accepted spelled-out line
fn joined_spellings(argv: &[Tok]) -> Vec<Vec<Tok>> {
    let w: Vec<String> = argv.iter().map(|t| t.lossy()).collect();
    let flag = |s: &str| matches!(s, "-r" | "-t" | "-f" | "-v");
    let mut out = vec![];
    for i in 0..w.len().saturating_sub(1) {
        let joined = if flag(&w[i]) && flag(&w[i + 1]) {
            Some(format!("{}{}", w[i], &w[i + 1][1..]))
        } else if w[i] == "-w" && w[i + 1] == "1" {
            Some("-w1".to_string())
        } else {
            None
        };
        if let Some(j) = joined {
            let mut v: Vec<Tok> = argv[..i].to_vec();
            v.push(Tok::s(&j));
            v.extend(argv[i + 2..].iter().cloned());
            out.push(v);
        }
    }
    // every maximal run of flags as one word, every `-w 1` as `-w1`
    let mut all: Vec<String> = vec![];
    let mut i = 0;
    while i < w.len() {
        if flag(&w[i]) {
            let mut word = w[i].clone();
            while i + 1 < w.len() && flag(&w[i + 1]) {
                word.push_str(&w[i + 1][1..]);
                i += 1;
            }
            all.push(word);
        } else if w[i] == "-w" && w.get(i + 1).map(|s| s.as_str()) == Some("1") {
            all.push("-w1".into());
            i += 1;
        } else {
            all.push(w[i].clone());
        }
        i += 1;
    }
    if all.len() < w.len() {
        out.push(all.iter().map(|s| Tok::s(s)).collect());
    }
    out.sort();
    out.dedup();
    out
}

fn run_shortstruct(len: usize, unit: &Value, only: Option<&[Tok]>, ctx: &mut Ctx) {
    let p = match build_checked(&shortstruct_opts()) {
        Ok(p) => p,
        Err(_) => return,
    };
    let alpha = toks(&["-r", "-t", "-f", "-w", "1", "-v"]);
    tree(&alpha, len, &mut |argv| {
        ctx.s.states += 1;
        // duplicates of a flag inside one word are another matter (-tt): spelled-out lines that
        // the parser accepts never have them next to each other, no need to exclude anything
        let base = match run(&p, argv) {
            Outcome::Value(v) => v,
            _ => return true,
        };
        for alt in joined_spellings(argv) {
            if only.map_or(false, |o| o != alt.as_slice()) {
                continue;
            }
            ctx.begin_case(|| json!({"argv": alt, "spelled_out": argv}));
            ctx.s.evaluations += 1;
            ctx.s.transitions += 1;
            match run(&p, &alt) {
                Outcome::Value(v) if v == base => {
                    ctx.s.nontrivial += 1;
                    ctx.s.validated += 1;
                    ctx.count("combined-spellings-of-a-block-judged");
                }
                other => {
                    let mut sig = BTreeMap::new();
                    sig.insert("clause".to_string(), "combined-short-words-spell-the-same-block".to_string());
                    sig.insert("observed".to_string(), other.class().to_string());
                    ctx.violation(Violation { property: "C19".into(), rule: "combined-short-words-spell-the-same-block".into(), sig, unit: unit.clone(), case: json!({"argv": alt, "spelled_out": argv}), expected: format!("{:?} (the value of the spelled-out line {:?})", base, argv.iter().map(|t| t.lossy()).collect::<Vec<_>>()), observed: other.brief(), size: alt.len() * 1000 });
                }
            }
        }
        true
    });
}

// ------------------------------------------------------------------------------------------
// a group whose leading flag has several names (-p, --point, --pt): a block may be spelled with
// any of them
// ------------------------------------------------------------------------------------------
fn aliasgroup_opts() -> Opts {
    let pos = |m: &str| P::Pos { ty: Ty::Os, strict: Strict::Any, metavar: m.into(), help: None };
    let lead = P::ReqFlag(Names { shorts: vec!['p'], longs: vec!["point".into(), "pt".into()], envs: vec![], help: None, long_first: false });
    Opts::new(P::Seq(vec![P::Switch(Names::short('v')), P::Adj(vec![lead, pos("X"), pos("Y")]).many()]))
}

fn run_aliasgroup(len: usize, unit: &Value, only: Option<&[Tok]>, ctx: &mut Ctx) {
    let p = match build_checked(&aliasgroup_opts()) {
        Ok(p) => p,
        Err(_) => return,
    };
    let alpha = toks(&["--point", "1", "2", "-v"]);
    tree(&alpha, len, &mut |argv| {
        ctx.s.states += 1;
        let base = match run(&p, argv) {
            Outcome::Value(v) => v,
            _ => return true,
        };
        let occ: Vec<usize> = argv.iter().enumerate().filter(|(_, t)| t.0 == b"--point").map(|(i, _)| i).collect();
        if occ.is_empty() || occ.len() > 3 {
            return true;
        }
        let spell = ["--point", "--pt", "-p"];
        let mut ix = vec![0usize; occ.len()];
        loop {
            // next assignment
            let mut k = 0;
            loop {
                if k == ix.len() {
                    return true;
                }
                ix[k] += 1;
                if ix[k] < spell.len() {
                    break;
                }
                ix[k] = 0;
                k += 1;
            }
            let mut alt = argv.to_vec();
            for (o, s) in occ.iter().zip(ix.iter()) {
                alt[*o] = Tok::s(spell[*s]);
            }
            if only.map_or(false, |o| o != alt.as_slice()) {
                continue;
            }
            ctx.begin_case(|| json!({"argv": alt}));
            ctx.s.evaluations += 1;
            ctx.s.transitions += 1;
            match run(&p, &alt) {
                Outcome::Value(v) if v == base => {
                    ctx.s.nontrivial += 1;
                    ctx.s.validated += 1;
                    ctx.count("blocks-spelled-with-another-name-judged");
                }
                other => {
                    let mut sig = BTreeMap::new();
                    sig.insert("clause".to_string(), "any-name-of-the-leading-flag-starts-a-block".to_string());
                    sig.insert("observed".to_string(), other.class().to_string());
                    ctx.violation(Violation { property: "C19".into(), rule: "any-name-of-the-leading-flag-starts-a-block".into(), sig, unit: unit.clone(), case: json!({"argv": alt}), expected: format!("{:?} (the value of the line spelled with --point)", base), observed: other.brief(), size: alt.len() * 1000 });
                }
            }
        }
    });
}

// ------------------------------------------------------------------------------------------
// a group led by a valued item and closed by a positional (--at A B) beside free positionals: a
// word in front of the block is not part of it
// ------------------------------------------------------------------------------------------
fn atgroup_opts(w: W, t: T) -> Opts {
    let pos = |m: &str| P::Pos { ty: Ty::Os, strict: Strict::Any, metavar: m.into(), help: None };
    let g = P::Adj(vec![P::arg(Names::long("at"), Ty::Os), pos("B")]);
    let gw = match w {
        W::Bare => g,
        W::Opt => g.opt(),
        W::Many => g.many(),
    };
    let mut fields = vec![P::Switch(Names::short('v')), gw];
    match t {
        T::None => {}
        T::Opt => fields.push(pos("FILE").opt()),
        T::Many => fields.push(pos("FILE").many()),
    }
    Opts::new(P::Seq(fields))
}

fn atgroup_model(w: W, t: T, argv: &[Tok]) -> Option<Val> {
    let mut v = 0;
    let mut blocks = vec![];
    let mut files = vec![];
    let mut i = 0;
    let plain = |i: usize| i < argv.len() && is_word(&argv[i]);
    while i < argv.len() {
        let tk = &argv[i];
        if tk.0 == b"-v" {
            v += 1;
            i += 1;
        } else if tk.0 == b"--at" {
            if !plain(i + 1) || !plain(i + 2) {
                return None;
            }
            blocks.push(Val::T(vec![Val::S(argv[i + 1].clone()), Val::S(argv[i + 2].clone())]));
            i += 3;
        } else if let Some(a) = tk.0.strip_prefix(b"--at=") {
            if !plain(i + 1) {
                return None;
            }
            blocks.push(Val::T(vec![Val::S(Tok(a.to_vec())), Val::S(argv[i + 1].clone())]));
            i += 2;
        } else if is_word(tk) {
            files.push(Val::S(tk.clone()));
            i += 1;
        } else {
            return None;
        }
    }
    if v > 1 {
        return None;
    }
    let g = match w {
        W::Bare => {
            if blocks.len() != 1 {
                return None;
            }
            blocks.pop().unwrap()
        }
        W::Opt => match blocks.len() {
            0 => Val::No,
            1 => Val::some(blocks.pop().unwrap()),
            _ => return None,
        },
        W::Many => Val::L(blocks),
    };
    let mut out = vec![Val::B(v == 1), g];
    match t {
        T::None => {
            if !files.is_empty() {
                return None;
            }
        }
        T::Opt => match files.len() {
            0 => out.push(Val::No),
            1 => out.push(Val::some(files.pop().unwrap())),
            _ => return None,
        },
        T::Many => out.push(Val::L(files)),
    }
    Some(Val::T(out))
}

fn run_atgroup(w: W, t: T, len: usize, unit: &Value, only: Option<&[Tok]>, ctx: &mut Ctx) {
    let p = match build_checked(&atgroup_opts(w, t)) {
        Ok(p) => p,
        Err(_) => return,
    };
    let mut one = |argv: &[Tok], ctx: &mut Ctx| {
        ctx.begin_case(|| json!({"argv": argv}));
        ctx.s.evaluations += 1;
        ctx.s.states += 1;
        let m = atgroup_model(w, t, argv);
        let r = run(&p, argv);
        let ok = match (&m, &r) {
            (Some(a), Outcome::Value(b)) => a == b,
            (None, Outcome::Stderr(x)) => !x.trim().is_empty(),
            _ => false,
        };
        if ok {
            if argv.iter().any(|x| x.0.starts_with(b"--at")) {
                ctx.s.nontrivial += 1;
            }
            ctx.s.validated += 1;
            ctx.count("valued-led-groups-beside-free-positionals-judged");
        } else {
            let mut sig = BTreeMap::new();
            sig.insert("clause".to_string(), "block-is-the-leading-item-and-its-contiguous-members".to_string());
            sig.insert("expected".to_string(), if m.is_some() { "value" } else { "failure" }.to_string());
            sig.insert("observed".to_string(), r.class().to_string());
            ctx.violation(Violation { property: "C19".into(), rule: "block-scanner-agrees".into(), sig, unit: unit.clone(), case: json!({"argv": argv}), expected: match &m { Some(v) => format!("{:?}", v), None => "a failure with a message".into() }, observed: r.brief(), size: argv.len() * 1000 });
        }
    };
    if let Some(a) = only {
        one(a, ctx);
        return;
    }
    let alpha = toks(&["--at", "--at=1", "2", "7", "-v"]);
    tree(&alpha, len, &mut |argv| {
        one(argv, ctx);
        true
    });
}

impl Check for C19 {
    fn id(&self) -> &'static str {
        "C19"
    }
    fn level(&self) -> &'static str {
        "model_checking"
    }
    fn units(&self, tier: Tier, _seed: u64) -> Vec<Value> {
        let mut out: Vec<Value> = defs(tier.pick(6, 7), true).into_iter().map(|mut d| {
            if d.g == G::Point3 {
                d.len = tier.pick(6, 8);
            }
            if d.g == G::Rect {
                d.len = tier.pick(5, 7);
            }
            serde_json::to_value(d).unwrap()
        }).collect();
        out.sort_by_key(|v| v.to_string());
        for cmd_wrap in [W::Bare, W::Opt, W::Many] {
            for two_values in [false, true] {
                for inner_switch in [false, true] {
                    out.push(json!({"nest": NestDef { cmd_wrap, two_values, inner_switch, len: tier.pick(7, 8) }}));
                }
            }
        }
        out.push(json!({"shortstruct": tier.pick(6, 7)}));
        out.push(json!({"aliasgroup": tier.pick(7, 8)}));
        for w in [W::Bare, W::Opt, W::Many] {
            for t in [T::None, T::Opt, T::Many] {
                out.push(json!({"atgroup": [serde_json::to_value(w).unwrap(), serde_json::to_value(t).unwrap()], "len": tier.pick(6, 7)}));
            }
        }
        out
    }
    fn run_unit(&self, unit: &Value, ctx: &mut Ctx) {
        if let Some(n) = unit.get("shortstruct").and_then(|n| n.as_u64()) {
            run_shortstruct(n as usize, unit, None, ctx);
            return;
        }
        if let Some(n) = unit.get("aliasgroup").and_then(|n| n.as_u64()) {
            run_aliasgroup(n as usize, unit, None, ctx);
            return;
        }
        if let Some(wt) = unit.get("atgroup") {
            let w: W = serde_json::from_value(wt[0].clone()).unwrap();
            let t: T = serde_json::from_value(wt[1].clone()).unwrap();
            run_atgroup(w, t, unit["len"].as_u64().unwrap_or(5) as usize, unit, None, ctx);
            return;
        }
        if let Some(n) = unit.get("nest") {
            let d: NestDef = serde_json::from_value(n.clone()).unwrap();
            let p = match build_checked(&nest_opts(&d)) {
                Ok(p) => p,
                Err(_) => return,
            };
            let alpha = nest_alphabet(&d);
            tree(&alpha, d.len, &mut |argv| {
                ctx.begin_case(|| json!({"argv": argv}));
                ctx.s.evaluations += 1;
                ctx.s.states += 1;
                if !argv.is_empty() {
                    ctx.s.transitions += 1;
                }
                judge_nest(&d, unit, &p, argv, ctx);
                true
            });
            return;
        }
        let d: Def = serde_json::from_value(unit.clone()).unwrap();
        let p = match build_checked(&to_opts(&d)) {
            Ok(p) => p,
            Err(_) => return,
        };
        let alpha = alphabet_for(d.g);
        tree(&alpha, d.len, &mut |argv| {
            ctx.begin_case(|| json!({"argv": argv}));
            ctx.s.evaluations += 1;
            ctx.s.states += 1;
            if !argv.is_empty() {
                ctx.s.transitions += 1;
            }
            judge(&d, unit, &p, argv, ctx);
            true
        });
    }
    fn replay(&self, unit: &Value, case: &Value, ctx: &mut Ctx) {
        if let Some(n) = unit.get("shortstruct").and_then(|n| n.as_u64()) {
            let argv: Vec<Tok> = serde_json::from_value(case["argv"].clone()).unwrap_or_default();
            run_shortstruct(n as usize, unit, Some(&argv), ctx);
            return;
        }
        if let Some(n) = unit.get("aliasgroup").and_then(|n| n.as_u64()) {
            let argv: Vec<Tok> = serde_json::from_value(case["argv"].clone()).unwrap_or_default();
            run_aliasgroup(n as usize, unit, Some(&argv), ctx);
            return;
        }
        if let Some(wt) = unit.get("atgroup") {
            let w: W = serde_json::from_value(wt[0].clone()).unwrap();
            let t: T = serde_json::from_value(wt[1].clone()).unwrap();
            let argv: Vec<Tok> = serde_json::from_value(case["argv"].clone()).unwrap_or_default();
            run_atgroup(w, t, 0, unit, Some(&argv), ctx);
            return;
        }
        if let Some(n) = unit.get("nest") {
            let d: NestDef = serde_json::from_value(n.clone()).unwrap();
            let argv: Vec<Tok> = serde_json::from_value(case["argv"].clone()).unwrap_or_default();
            if let Ok(p) = build_checked(&nest_opts(&d)) {
                ctx.s.evaluations += 1;
                judge_nest(&d, unit, &p, &argv, ctx);
            }
            return;
        }
        let d: Def = serde_json::from_value(unit.clone()).unwrap();
        let argv: Vec<Tok> = serde_json::from_value(case["argv"].clone()).unwrap_or_default();
        if let Ok(p) = build_checked(&to_opts(&d)) {
            ctx.s.evaluations += 1;
            judge(&d, unit, &p, &argv, ctx);
        }
    }
    fn rule(&self) -> String {
        "definitions = {--point X | X Y | X Y Z, --point --w W --h H [--o], --point --w W X, --x X --y Y (a group starting with a valued item)} x {bare, optional, many} x {no, optional, repeated trailing positional} x {neighbouring switch absent, declared before, declared after}; plus blocks inside blocks: an adjacent command (bare / optional / many) whose sub-parser holds a repeated adjacent group --point X [Y] (and optionally its own switch) beside a top-level switch, all vectors of length <= 6-7 over {cmd, --point, 1, 2, -v, -x}; every vector of the token tree over 6-8 tokens (leading flag, members, inline member, words, foreign -v / --zz, `--`); each node judged by the block scanner (a block = leading flag + contiguous members; one value per block; everything else belongs to the surrounding level); state = (definition, vector), transition = append token; non-trivial = judged vector containing the group's leading flag; plus an option-struct with short names (-r [-t] [-f] -w W under many): every way of joining neighbouring words of an accepted spelled-out line gives the same value; plus a group whose leading flag has three names (-p, --point, --pt): every respelling of the leading flags of an accepted line gives the same value; plus a group led by a valued item and closed by a positional (--at A B; bare / optional / many) beside no / an optional / repeated free positionals, judged by its own block scanner".into()
    }
    fn bounds(&self, tier: Tier) -> Value {
        json!({"vector_length": tier.pick("6 (5 for the 4-member option-struct, 7 nested)", "7 (8 for --point X Y Z and nested)"), "blocks": "0..3 per line within that length"})
    }
}
