//! C08 — sub-commands scope what follows them.  Command trees of depth <= 3 judged by the
//! level-aware reference scanner on the token tree and on every misplacement of a deeper
//! level's items; `path.. --help` must describe exactly that level.
use crate::checks::c01::judge;
use crate::conv::*;
use crate::def::*;
use crate::explore::*;
use crate::fam;
use crate::run::*;
use crate::sup::*;
use serde::{Deserialize, Serialize};
use serde_json::{json, Value};
use std::collections::BTreeMap;

pub struct C08;

#[derive(Serialize, Deserialize)]
pub struct Unit {
    pub level: Level,
    pub len: usize,
}

fn cmd(name: &str, shorts: Vec<char>, longs: Vec<&str>, level: Level) -> CmdDef {
    CmdDef { name: name.into(), shorts, longs: longs.into_iter().map(String::from).collect(), level }
}

pub fn trees(seed: u64) -> Vec<Level> {
    let mut out = vec![];
    let d2s = vec![fam::leaf(vec![fam::named(6, Kind::ArgOpt, 0, seed)], Tail::None), fam::leaf(vec![fam::named(6, Kind::ArgOpt, 2, seed)], fam::pos(&[PosKind::Many]))];
    let mut d1_tails = vec![Tail::None, fam::pos(&[PosKind::Opt]), fam::pos(&[PosKind::Req])];
    for d2 in &d2s {
        for w in [CmdWrap::Required, CmdWrap::Optional, CmdWrap::PureFirst] {
            d1_tails.push(Tail::Cmds { cmds: vec![cmd("deep", vec![], vec![], d2.clone())], wrap: w });
        }
    }
    let d1_named: Vec<Vec<Named>> = vec![vec![], vec![fam::named(4, Kind::Switch, 0, seed)], vec![fam::named(4, Kind::ArgOpt, 0, seed)]];
    let top_named: Vec<Vec<Named>> = vec![vec![], vec![fam::named(0, Kind::Switch, 0, seed)], vec![fam::named(0, Kind::ArgReq, 0, seed)], vec![fam::named(0, Kind::Switch, 1, seed), fam::named(1, Kind::ArgMany, 2, seed)]];
    let other = cmd("other", vec![], vec![], fam::leaf(vec![fam::named(5, Kind::Switch, 1, seed)], Tail::None));
    let mut j = 0usize;
    for tn in &top_named {
        for siblings in [1, 2] {
            for wrap in [CmdWrap::Required, CmdWrap::Optional, CmdWrap::Fallback, CmdWrap::PureAlt, CmdWrap::PureFirst] {
                for n1 in &d1_named {
                    for t1 in &d1_tails {
                        j += 1;
                        let aliases = j % 3 == 0;
                        let c = cmd("cmd", if aliases { vec![if j % 2 == 0 { 'm' } else { 'д' }] } else { vec![] }, if aliases { vec!["command"] } else { vec![] }, fam::leaf(n1.clone(), t1.clone()));
                        let cmds = if siblings == 1 { vec![c] } else if j % 2 == 0 { vec![c, other.clone()] } else { vec![other.clone(), c] };
                        out.push(fam::leaf(tn.clone(), Tail::Cmds { cmds, wrap }));
                    }
                }
            }
        }
    }
    out
}

/// canonical occurrence of every named item of a level
fn level_blocks(l: &Level) -> Vec<Vec<Tok>> {
    l.named
        .iter()
        .map(|n| {
            let name = match n.names.longs.first() {
                Some(lg) => format!("--{}", lg),
                None => format!("-{}", n.names.shorts[0]),
            };
            if n.kind.is_arg() {
                vec![Tok::s(&name), Tok::s("v")]
            } else {
                vec![Tok::s(&name)]
            }
        })
        .collect()
}

/// sentences along every command path, then every misplacement of deeper blocks to the left
/// of their command name, unknown commands and command names in the wrong place
pub fn sentences(root: &Level) -> Vec<Vec<Tok>> {
    let mut out: Vec<Vec<Tok>> = vec![];
    // paths: (levels, names)
    fn paths<'a>(l: &'a Level, cur_l: &mut Vec<&'a Level>, cur_n: &mut Vec<String>, out: &mut Vec<(Vec<&'a Level>, Vec<String>)>) {
        cur_l.push(l);
        out.push((cur_l.clone(), cur_n.clone()));
        if let Tail::Cmds { cmds, .. } = &l.tail {
            for c in cmds {
                let mut names = vec![c.name.clone()];
                names.extend(c.longs.iter().cloned());
                names.extend(c.shorts.iter().map(|s| s.to_string()));
                for nm in names {
                    cur_n.push(nm);
                    paths(&c.level, cur_l, cur_n, out);
                    cur_n.pop();
                }
            }
        }
        cur_l.pop();
    }
    let mut ps = vec![];
    paths(root, &mut vec![], &mut vec![], &mut ps);
    for (levels, names) in &ps {
        // segments: blocks of level 0, name 1, blocks of level 1, ...
        let mut segs: Vec<(usize, Vec<Tok>)> = vec![]; // (depth, tokens) ; command names have depth usize::MAX-depth marker via separate list
        let mut name_pos: Vec<usize> = vec![]; // index in segs of the command name entering depth d+1
        for (d, l) in levels.iter().enumerate() {
            for b in level_blocks(l) {
                segs.push((d, b));
            }
            if d == levels.len() - 1 {
                if let Tail::Pos(_) = &l.tail {
                    segs.push((d, vec![Tok::s("w")]));
                }
            }
            if d < names.len() {
                name_pos.push(segs.len());
                segs.push((usize::MAX, vec![Tok::s(&names[d])]));
            }
        }
        let flat = |segs: &Vec<(usize, Vec<Tok>)>| -> Vec<Tok> { segs.iter().flat_map(|s| s.1.iter().cloned()).collect() };
        out.push(flat(&segs));
        // misplacements: move a block of depth d>=1 to every position left of the name entering depth d
        for (i, (d, _)) in segs.iter().enumerate() {
            if *d == usize::MAX || *d == 0 {
                continue;
            }
            let limit = name_pos[*d - 1];
            for target in 0..=limit {
                let mut s2 = segs.clone();
                let b = s2.remove(i);
                s2.insert(target, b);
                out.push(flat(&s2));
            }
        }
        // unknown command in place of each command name; duplicated command name
        for np in &name_pos {
            let mut s2 = segs.clone();
            s2[*np].1 = vec![Tok::s("nope")];
            out.push(flat(&s2));
            let mut s3 = segs.clone();
            let dup = s3[*np].clone();
            s3.insert(*np, dup);
            out.push(flat(&s3));
            // the command name moved to the very end / very beginning
            let mut s4 = segs.clone();
            let nm = s4.remove(*np);
            s4.push(nm.clone());
            out.push(flat(&s4));
            let mut s5 = segs.clone();
            let nm = s5.remove(*np);
            s5.insert(0, nm);
            out.push(flat(&s5));
        }
    }
    out.sort();
    out.dedup();
    out
}

/// `path.. --help` must be stdout whose usage line starts with the path and whose item names
/// are exactly the visible names of that level (names are distinct across levels)
fn check_help(root: &Level, unit: &Value, p: &bpaf::OptionParser<Val>, ctx: &mut Ctx) {
    #[allow(clippy::too_many_arguments)]
    fn go(root_unit: &Value, l: &Level, path: &mut Vec<String>, prefix: &mut Vec<Tok>, p: &bpaf::OptionParser<Val>, all: &Vec<(String, usize)>, depth_id: usize, ctx: &mut Ctx, counter: &mut usize) {
        // the line so far: every enclosing level's required items, written before the next
        // command name; and the bare path (enclosing levels incomplete): help requested after
        // the name describes the sub-command either way
        let bare: Vec<Tok> = path.iter().map(|n| Tok::s(n)).collect();
        let mut lines = vec![];
        for h in ["--help", "-h"] {
            let mut a = prefix.clone();
            a.push(Tok::s(h));
            lines.push(a);
            if bare != *prefix {
                let mut b = bare.clone();
                b.push(Tok::s(h));
                lines.push(b);
            }
        }
        for argv in lines {
            one(root_unit, path, argv, p, all, depth_id, ctx);
        }
        if let Tail::Cmds { cmds, .. } = &l.tail {
            for c in cmds {
                *counter += 1;
                let id = *counter;
                path.push(c.name.clone());
                let keep = prefix.len();
                for (n, b) in l.named.iter().zip(level_blocks(l)) {
                    if n.kind.required() {
                        prefix.extend(b);
                    }
                }
                prefix.push(Tok::s(&c.name));
                go(root_unit, &c.level, path, prefix, p, all, id, ctx, counter);
                prefix.truncate(keep);
                path.pop();
            }
        }
    }
    fn one(root_unit: &Value, path: &Vec<String>, argv: Vec<Tok>, p: &bpaf::OptionParser<Val>, all: &Vec<(String, usize)>, my_id: usize, ctx: &mut Ctx) {
        ctx.s.evaluations += 1;
        let r = run(p, &argv);
        let mut problem: Option<String> = None;
        match &r {
            Outcome::Stdout { text, .. } => {
                let first = text.lines().next().unwrap_or("");
                let want = if path.is_empty() { "Usage:".to_string() } else { format!("Usage: {}", path.join(" ")) };
                // the usage line uses primary command names
                if !(first == want || first.starts_with(&(want.clone() + " "))) {
                    problem = Some(format!("usage line {:?} does not start with {:?}", first, want));
                }
                // names mentioned anywhere in the text
                for (name, owner) in all {
                    let mentioned = text.split(|c: char| c.is_whitespace() || c == ',' || c == '[' || c == ']' || c == '(' || c == ')' || c == '|' || c == '=').any(|w| w == name);
                    if *owner == my_id && !mentioned {
                        problem = Some(format!("{} of this level is not in its help", name));
                    }
                    if *owner != my_id && mentioned {
                        problem = Some(format!("{} belongs to another level but is in this help", name));
                    }
                }
            }
            _ => problem = Some("not stdout".into()),
        }
        match problem {
            None => {
                ctx.count("help-levels-checked");
                ctx.s.nontrivial += 1;
            }
            Some(pr) => {
                let mut sig = BTreeMap::new();
                sig.insert("depth".to_string(), path.len().to_string());
                sig.insert("observed".to_string(), r.class().to_string());
                ctx.violation(Violation { property: "C08".into(), rule: "help-after-name-describes-the-subcommand".into(), sig, unit: root_unit.clone(), case: json!({"argv": argv, "help": true}), expected: format!("stdout help of level {:?}", path), observed: format!("{}: {}", pr, r.brief()), size: argv.len() * 1000 });
            }
        }
    }
    // assign ids in the same traversal order as `go`
    let mut all: Vec<(String, usize)> = vec![];
    fn collect(l: &Level, id: usize, all: &mut Vec<(String, usize)>, counter: &mut usize) {
        for n in &l.named {
            if let Some(s) = n.names.shorts.first() {
                all.push((format!("-{}", s), id));
            }
            if let Some(lg) = n.names.longs.first() {
                all.push((format!("--{}", lg), id));
            }
        }
        if let Tail::Cmds { cmds, .. } = &l.tail {
            for c in cmds {
                *counter += 1;
                let cid = *counter;
                collect(&c.level, cid, all, counter);
            }
        }
    }
    let mut counter = 0;
    collect(root, 0, &mut all, &mut counter);
    let mut counter = 0;
    go(unit, root, &mut vec![], &mut vec![], p, &all, 0, ctx, &mut counter);
}

// ------------------------------------------------------------------------------------------
// an ordinary sub-command inside an adjacent command, the adjacent commands chained under many:
// the inner command ends where its parent's block ends (`build target -y clean -f`)
// ------------------------------------------------------------------------------------------
fn chainnest_opts() -> Opts {
    let target = P::cmd("target", Opts::new(P::Seq(vec![P::Switch(Names::short('y'))])));
    let build = P::Cmd { name: "build".into(), shorts: vec![], longs: vec![], inner: Box::new(Opts::new(P::Seq(vec![target]))), adjacent: true, help: None };
    let clean = P::Cmd { name: "clean".into(), shorts: vec![], longs: vec![], inner: Box::new(Opts::new(P::Seq(vec![P::Switch(Names::short('f'))]))), adjacent: true, help: None };
    Opts::new(P::Seq(vec![P::Alt(vec![build, clean]).many()]))
}

/// Some(value) for lines that are a sequence of blocks `build target [-y]` | `clean [-f]`
fn chainnest_model(argv: &[Tok]) -> Option<Val> {
    let w: Vec<String> = argv.iter().map(|t| t.lossy()).collect();
    let mut blocks = vec![];
    let mut i = 0;
    while i < w.len() {
        match w[i].as_str() {
            "build" => {
                if w.get(i + 1).map(|s| s.as_str()) != Some("target") {
                    return None;
                }
                i += 2;
                let y = w.get(i).map(|s| s.as_str()) == Some("-y");
                if y {
                    i += 1;
                }
                blocks.push(Val::Cmd("build".into(), Box::new(Val::T(vec![Val::Cmd("target".into(), Box::new(Val::T(vec![Val::B(y)])))]))));
            }
            "clean" => {
                i += 1;
                let f = w.get(i).map(|s| s.as_str()) == Some("-f");
                if f {
                    i += 1;
                }
                blocks.push(Val::Cmd("clean".into(), Box::new(Val::T(vec![Val::B(f)]))));
            }
            _ => return None,
        }
    }
    Some(Val::T(vec![Val::L(blocks)]))
}

fn run_chainnest(len: usize, unit: &Value, only: Option<&[Tok]>, ctx: &mut Ctx) {
    let p = match build_checked(&chainnest_opts()) {
        Ok(p) => p,
        Err(_) => return,
    };
    let mut one = |argv: &[Tok], ctx: &mut Ctx| {
        ctx.begin_case(|| json!({"argv": argv}));
        ctx.s.evaluations += 1;
        ctx.s.states += 1;
        let m = chainnest_model(argv);
        let r = run(&p, argv);
        let ok = match (&m, &r) {
            (Some(a), Outcome::Value(b)) => a == b,
            (None, Outcome::Stderr(t)) => !t.trim().is_empty(),
            _ => false,
        };
        if ok {
            ctx.s.nontrivial += 1;
            ctx.s.validated += 1;
            ctx.count("commands-nested-in-chained-adjacent-commands-judged");
        } else {
            let mut sig = std::collections::BTreeMap::new();
            sig.insert("clause".to_string(), "inner-command-ends-with-its-parents-block".to_string());
            sig.insert("expected".to_string(), if m.is_some() { "value" } else { "failure" }.to_string());
            sig.insert("observed".to_string(), r.class().to_string());
            ctx.violation(Violation { property: "C08".into(), rule: "items-right-of-a-command-name-belong-to-that-command".into(), sig, unit: unit.clone(), case: json!({"argv": argv}), expected: match &m { Some(v) => format!("{:?}", v), None => "a failure with a message".into() }, observed: r.brief(), size: argv.len() * 1000 });
        }
    };
    if let Some(a) = only {
        one(a, ctx);
        return;
    }
    let alpha = toks(&["build", "target", "-y", "clean", "-f"]);
    tree(&alpha, len, &mut |argv| {
        one(argv, ctx);
        true
    });
}

impl Check for C08 {
    fn id(&self) -> &'static str {
        "C08"
    }
    fn level(&self) -> &'static str {
        "model_checking"
    }
    fn units(&self, tier: Tier, seed: u64) -> Vec<Value> {
        let mut out: Vec<Value> = trees(seed).into_iter().map(|l| serde_json::to_value(Unit { level: l, len: tier.pick(3, 4) }).unwrap()).collect();
        // fallback_to_usage on every level of every third tree: an entered sub-command's failure
        // stays its failure, only a level that got no items at all prints its usage
        let every_third: Vec<Level> = trees(seed + 1).into_iter().step_by(3).collect();
        for l in crate::checks::c01::with_usage_fallback(every_third) {
            out.push(serde_json::to_value(Unit { level: l, len: tier.pick(3, 4) }).unwrap());
        }
        // adjacent sub-commands (bare / optional / repeated, beside a parent switch, holding an
        // adjacent group): the command owns exactly its contiguous block, what follows goes
        // back to the parent - judged by C19's block scanner
        use crate::checks::c19::{NestDef, W};
        // a command inside an optional member of a group that is one branch of an alternative
        // commands in unusual places (flag-looking names, under last / optional / collect / some,
        // in an optional group member, under fallback, hidden): they answer for themselves
        for k in 0..crate::checks::c10::odd_command_cases().len() {
            out.push(json!({"odd": k}));
        }
        for cmd_wrap in [W::Bare, W::Opt, W::Many] {
            for two_values in [false, true] {
                for inner_switch in [false, true] {
                    out.push(json!({"nest": NestDef { cmd_wrap, two_values, inner_switch, len: tier.pick(5, 7) }}));
                }
            }
        }
        out.push(json!({"chainnest": tier.pick(6, 7)}));
        out
    }
    fn run_unit(&self, unit: &Value, ctx: &mut Ctx) {
        if let Some(k) = unit.get("odd").and_then(|k| k.as_u64()) {
            crate::checks::c10::run_odd_command("C08", k as usize, unit, None, ctx);
            return;
        }
        if let Some(n) = unit.get("chainnest").and_then(|k| k.as_u64()) {
            run_chainnest(n as usize, unit, None, ctx);
            return;
        }
        if let Some(n) = unit.get("nest") {
            let d: crate::checks::c19::NestDef = serde_json::from_value(n.clone()).unwrap();
            if let Ok(p) = build_checked(&crate::checks::c19::nest_opts(&d)) {
                let alpha = crate::checks::c19::nest_alphabet(&d);
                tree(&alpha, d.len, &mut |argv| {
                    ctx.begin_case(|| json!({"argv": argv}));
                    ctx.s.evaluations += 1;
                    ctx.s.states += 1;
                    ctx.count("adjacent-command-vectors");
                    crate::checks::c19::judge_nest_as("C08", &d, unit, &p, argv, ctx);
                    true
                });
            }
            return;
        }
        let u: Unit = serde_json::from_value(unit.clone()).unwrap();
        let p = match build_checked(&u.level.to_opts()) {
            Ok(p) => p,
            Err(_) => return,
        };
        let model = Model::new(&u.level);
        let alpha = alphabet(&u.level, AlphaStyle::Full);
        let env = Env::new();
        tree(&alpha, u.len, &mut |argv| {
            ctx.begin_case(|| json!({"argv": argv}));
            ctx.s.evaluations += 1;
            ctx.s.states += 1;
            if !argv.is_empty() {
                ctx.s.transitions += 1;
            }
            judge("C08", &u.level, unit, &model, &p, argv, &env, ctx);
            true
        });
        for s in sentences(&u.level) {
            ctx.begin_case(|| json!({"argv": s}));
            ctx.s.evaluations += 1;
            ctx.s.states += 1;
            ctx.count("sentence-and-misplacement-vectors");
            judge("C08", &u.level, unit, &model, &p, &s, &env, ctx);
        }
        check_help(&u.level, unit, &p, ctx);
    }
    fn replay(&self, unit: &Value, case: &Value, ctx: &mut Ctx) {
        if let Some(k) = unit.get("odd").and_then(|k| k.as_u64()) {
            let argv: Vec<Tok> = serde_json::from_value(case["argv"].clone()).unwrap_or_default();
            crate::checks::c10::run_odd_command("C08", k as usize, unit, Some(&argv), ctx);
            return;
        }
        if let Some(n) = unit.get("chainnest").and_then(|k| k.as_u64()) {
            let argv: Vec<Tok> = serde_json::from_value(case["argv"].clone()).unwrap_or_default();
            run_chainnest(n as usize, unit, Some(&argv), ctx);
            return;
        }
        if let Some(n) = unit.get("nest") {
            let d: crate::checks::c19::NestDef = serde_json::from_value(n.clone()).unwrap();
            let argv: Vec<Tok> = serde_json::from_value(case["argv"].clone()).unwrap_or_default();
            if let Ok(p) = build_checked(&crate::checks::c19::nest_opts(&d)) {
                ctx.s.evaluations += 1;
                crate::checks::c19::judge_nest_as("C08", &d, unit, &p, &argv, ctx);
            }
            return;
        }
        let u: Unit = serde_json::from_value(unit.clone()).unwrap();
        let argv: Vec<Tok> = serde_json::from_value(case["argv"].clone()).unwrap_or_default();
        if let Ok(p) = build_checked(&u.level.to_opts()) {
            ctx.s.evaluations += 1;
            if case["help"].as_bool() == Some(true) {
                let mut c2 = Ctx::new(ctx.tier, ctx.seed);
                check_help(&u.level, unit, &p, &mut c2);
                for (k, (n, v)) in c2.s.violations {
                    if v.case["argv"] == case["argv"] {
                        ctx.s.violations.insert(k, (n, v));
                    }
                }
            } else {
                let model = Model::new(&u.level);
                judge("C08", &u.level, unit, &model, &p, &argv, &Env::new(), ctx);
            }
        }
    }
    fn rule(&self) -> String {
        "definitions = command trees of depth <=3: top level {0,1,2 named items} x {1,2 sibling commands, either order} x {required, optional, fallback, default as last alternative, default as first alternative} x second level {0,1 named item} x {no tail, optional / required positional, required / optional / default-first third-level command with 2 leaf variants}, long and short command aliases on every third tree, fallback_to_usage on every level of a third of the trees; inputs = every vector of the token tree (full alphabet: all names, aliases, inline forms, clusters, words, `--`, unknown names) plus, per command path and alias, the canonical sentence and EVERY misplacement of each deeper-level block to each position left of its command name, unknown / duplicated / displaced command names; all judged by the level-aware reference scanner; plus `path --help` for every path: usage line starts with the path, names mentioned are exactly that level's; plus adjacent sub-commands (bare / optional / repeated, beside a parent switch, holding an adjacent group) over their token tree, judged by the block scanner: the command owns exactly its contiguous block; hidden commands (alone, among visible siblings) and commands under some(..): help behind the name is the command's own; an ordinary command nested in an adjacent command, chained under many (build target [-y] | clean [-f]): lines that are sequences of such blocks give the blocks in order, every other line fails".into()
    }
    fn bounds(&self, tier: Tier) -> Value {
        json!({"depth": 3, "siblings": 2, "tree_vector_length": tier.pick(3, 4), "sentence_length": "up to 9 tokens with one displaced block"})
    }
}
