//! C12 — generated help documents exactly what the parser accepts.
use crate::def::*;
use crate::docfam::*;
use crate::run::*;
use crate::sup::*;
use crate::vis::*;
use serde::{Deserialize, Serialize};
use serde_json::{json, Value};
use std::collections::BTreeMap;

pub struct C12;

#[derive(Serialize, Deserialize)]
pub struct Unit {
    pub opts: Opts,
    /// items written in front of a command name (earlier members of a chain of adjacent
    /// commands): the help asked for behind them is still the help of the last command
    #[serde(default)]
    pub prefixes: Vec<Vec<String>>,
}

/// definitions outside the field x tail product: a command as one branch of a choice whose other
/// branch takes a word of the same line, and chains of adjacent commands
fn extra_units() -> Vec<Unit> {
    let hn = |n: Names, t: &str| {
        let mut n = n;
        n.help = Some(DocSpec::plain(t));
        n
    };
    let pos = |mv: &str, help: &str| P::Pos { ty: Ty::Os, strict: Strict::Any, metavar: mv.into(), help: Some(DocSpec::plain(help)) };
    let mut init = Opts::new(P::Seq(vec![P::Switch(hn(Names::long("bare"), "no working tree")), P::Arg { names: hn(Names::long("template"), "directory with templates"), ty: Ty::Os, adjacent: false, metavar: "DIR".into() }.opt()]));
    init.cfg.descr = Some(DocSpec::plain("create a repository"));
    init.cfg.header = Some(DocSpec::plain("header of init"));
    init.cfg.footer = Some(DocSpec::plain("footer of init"));
    let init = P::Cmd { name: "init".into(), shorts: vec!['i'], longs: vec![], inner: Box::new(init), adjacent: false, help: None };
    let mut out = vec![];
    for k in 0..4 {
        let other = if k < 2 { pos("FILE", "file to look at") } else { P::ReqFlag(hn(Names::long("watch"), "keep running")) };
        let alt = if k % 2 == 0 { P::Alt(vec![init.clone(), other]) } else { P::Alt(vec![other, init.clone()]) };
        out.push(Unit { opts: Opts::new(P::Seq(vec![P::Switch(hn(Names::both('v', "verbose"), "say more")), alt])), prefixes: vec![] });
    }
    // a command and a positional of one level spelled alike (name = metavariable, same help):
    // two rows, one in each list
    {
        let mut task = Opts::new(P::Seq(vec![P::Switch(hn(Names::short('l'), "list them"))]));
        task.cfg.descr = Some(DocSpec::plain("Task to work with"));
        let cmd = P::Cmd { name: "task".into(), shorts: vec![], longs: vec![], inner: Box::new(task), adjacent: false, help: None };
        let p = pos("task", "Task to work with");
        for order in 0..2 {
            let alt = if order == 0 { P::Alt(vec![cmd.clone(), p.clone()]) } else { P::Alt(vec![p.clone(), cmd.clone()]) };
            out.push(Unit { opts: Opts::new(P::Seq(vec![P::Switch(hn(Names::both('v', "verbose"), "say more")), alt])), prefixes: vec![] });
        }
    }
    // chains of adjacent commands under many
    let adj = |name: &str, inner: Vec<P>, descr: &str| {
        let mut o = Opts::new(P::Seq(inner));
        o.cfg.descr = Some(DocSpec::plain(descr));
        P::Cmd { name: name.into(), shorts: vec![], longs: vec![], inner: Box::new(o), adjacent: true, help: None }
    };
    let eat = adj("eat", vec![pos("FOOD", "what to eat")], "eat something");
    let drink = adj("drink", vec![P::Switch(hn(Names::long("coffee"), "with coffee")), P::Arg { names: hn(Names::long("sugar"), "spoons of sugar"), ty: Ty::Os, adjacent: false, metavar: "N".into() }.opt()], "drink something");
    let sleep = adj("sleep", vec![P::Arg { names: hn(Names::long("time"), "hours"), ty: Ty::Os, adjacent: false, metavar: "T".into() }], "sleep a while");
    let prefixes: Vec<Vec<String>> = [vec!["eat", "Fastfood"], vec!["sleep", "--time", "3"], vec!["-v", "sleep", "--time", "3", "eat", "Apple"], vec!["drink", "--coffee"]].iter().map(|v| v.iter().map(|s| s.to_string()).collect()).collect();
    out.push(Unit { opts: Opts::new(P::Seq(vec![P::Switch(hn(Names::short('v'), "say more")), P::Alt(vec![eat, drink, sleep]).many()])), prefixes });
    out
}

fn viol(rule: &str, unit: &Value, path: &[String], detail: String, text: &str) -> Violation {
    let mut sig = BTreeMap::new();
    sig.insert("clause".to_string(), rule.to_string());
    sig.insert("depth".to_string(), path.len().to_string());
    let d: String = detail.chars().map(|c| if c.is_ascii_digit() { '#' } else { c }).take(60).collect();
    sig.insert("detail".to_string(), d);
    Violation { property: "C12".into(), rule: rule.into(), sig, unit: unit.clone(), case: json!({"path": path}), expected: detail, observed: text.chars().take(1500).collect(), size: 0 }
}

/// option-like tokens of a text: `-x`, `--name` (punctuation and `=META` stripped)
pub fn option_tokens(text: &str) -> Vec<String> {
    let mut out = vec![];
    for w in text.split(|c: char| c.is_whitespace() || matches!(c, ',' | '[' | ']' | '(' | ')' | '|' | '.')) {
        let w = w.split('=').next().unwrap_or("");
        if w.starts_with("--") && w.len() > 2 || (w.starts_with('-') && w.chars().count() == 2 && w != "--") {
            out.push(w.to_string());
        }
    }
    out
}

pub fn help_text(p: &bpaf::OptionParser<Val>, path: &[String]) -> Outcome {
    let mut argv: Vec<Tok> = path.iter().map(|s| Tok::s(s)).collect();
    argv.push(Tok::s("--help"));
    run(p, &argv)
}

/// the region after the usage block
fn after_usage(text: &str) -> &str {
    match text.find("Usage:").or_else(|| text.find("OVERRIDDEN USAGE")) {
        Some(u) => match text[u..].find("\n\n") {
            Some(e) => &text[u + e + 2..],
            None => "",
        },
        None => text,
    }
}

fn row_matches(line: &str, row: &Row) -> bool {
    let t = line.trim_start();
    let term = row.term();
    if !t.starts_with(&term) {
        return false;
    }
    let rest = &t[term.len()..];
    if !(rest.is_empty() || rest.starts_with(' ')) {
        return false;
    }
    let rest = rest.trim();
    match row.help() {
        Some(h) => rest == h,
        None => rest.is_empty() || rest.starts_with("[env:") || rest.starts_with("[default:"),
    }
}

fn check_level(unit: &Value, p: &bpaf::OptionParser<Val>, path: &[String], level: &Opts, ctx: &mut Ctx) {
    ctx.s.evaluations += 1;
    ctx.s.states += 1;
    let r = help_text(p, path);
    let text = match &r {
        Outcome::Stdout { text, .. } => text.clone(),
        o => {
            ctx.violation(viol("help-is-stdout", unit, path, "help output on stdout".into(), &o.brief()));
            return;
        }
    };
    let vis = visible(level);
    let lines: Vec<&str> = text.lines().collect();
    let mut ok = true;
    // (a) every expected item has exactly one row (positionals only when they have help)
    let mut seen: Vec<(String, Option<String>)> = vec![];
    for row in &vis.rows {
        if let Row::Pos { help: None, .. } = row {
            continue;
        }
        let key = (row.term(), row.help().cloned());
        if seen.contains(&key) {
            continue;
        }
        seen.push(key);
        let n = lines.iter().filter(|l| row_matches(l, row)).count();
        if n != 1 {
            ok = false;
            ctx.violation(viol(if n == 0 { "every-visible-item-has-a-row" } else { "item-listed-once" }, unit, path, format!("exactly one row `{}  {}` (found {})", row.term(), row.help().cloned().unwrap_or_default(), n), &text));
        }
        if let Row::Named { env: Some(e), .. } = row {
            if !text.contains(&format!("[env:{}", e)) {
                ok = false;
                ctx.violation(viol("env-shown", unit, path, format!("[env:{} ..] shown", e), &text));
            }
        }
    }
    // (b) nothing else: every option-like token belongs to a visible item or is help/version
    let mut allowed: Vec<String> = vec!["-h".into(), "--help".into()];
    if level.cfg.version.is_some() {
        allowed.push("-V".into());
        allowed.push("--version".into());
    }
    for row in &vis.rows {
        if let Row::Named { short, long, .. } = row {
            if let Some(s) = short {
                allowed.push(format!("-{}", s));
            }
            if let Some(l) = long {
                allowed.push(format!("--{}", l));
            }
        }
    }
    for t in option_tokens(&text) {
        if !allowed.contains(&t) {
            ok = false;
            ctx.violation(viol("lists-nothing-else", unit, path, format!("token {} is not a visible name of this level", t), &text));
        }
    }
    for f in &vis.forbidden {
        let shown = if f.starts_with('-') { option_tokens(&text).contains(f) } else { text.split_whitespace().any(|w| w.trim_matches(',') == f) };
        if shown {
            ok = false;
            ctx.violation(viol("hidden-and-alias-names-not-shown", unit, path, format!("{} must not appear", f), &text));
        }
    }
    // rows sit under the heading of their own kind: the help flag is an option, it is listed
    // under "Available options:" and under no other "Available .." heading
    {
        let mut heading = "";
        let mut found = false;
        for l in &lines {
            if l.starts_with("Available ") && l.ends_with(':') {
                heading = l;
            }
            if l.trim_start().starts_with("-h, --help") {
                found = true;
                if heading != "Available options:" {
                    ok = false;
                    ctx.violation(viol("rows-under-the-heading-of-their-kind", unit, path, "the -h, --help row under \"Available options:\"".into(), &text));
                }
            }
        }
        if !found && level.cfg.help_names.is_none() {
            ok = false;
            ctx.violation(viol("every-visible-item-has-a-row", unit, path, "a row for -h, --help".into(), &text));
        }
        // positional rows (four-space indent, upper-case metavariable first) never sit under
        // the options heading
        let mut heading = "";
        for l in &lines {
            if l.starts_with("Available ") && l.ends_with(':') {
                heading = l;
            }
            for row in &vis.rows {
                if let Row::Pos { help: Some(_), in_adjacent: false, .. } = row {
                    if row_matches(l, row) && heading == "Available options:" {
                        ok = false;
                        ctx.violation(viol("rows-under-the-heading-of-their-kind", unit, path, format!("positional row {} not under \"Available options:\"", row.term()), &text));
                    }
                }
            }
        }
    }
    // command rows only for visible commands
    if let Some(ci) = text.find("Available commands:") {
        let block = text[ci..].split("\n\n").next().unwrap_or("");
        let names: Vec<String> = vis.rows.iter().filter_map(|r| if let Row::Cmd { name, .. } = r { Some(name.clone()) } else { None }).collect();
        for l in block.lines().skip(1) {
            let first = l.trim_start().split(|c: char| c == ',' || c.is_whitespace()).next().unwrap_or("");
            if l.starts_with("    ") && !l.starts_with("     ") && !names.iter().any(|n| n == first) {
                ok = false;
                ctx.violation(viol("lists-nothing-else", unit, path, format!("command row {:?} is not a visible command", first), &text));
            }
        }
    }
    // (e) order: descr < usage < header < lists < footer
    let pos = |s: &str| text.find(s);
    let mut marks: Vec<(usize, &str)> = vec![];
    if let Some(d) = &level.cfg.descr {
        if let Some(x) = pos(&first_paragraph(d)) {
            marks.push((x, "descr"));
        } else {
            ok = false;
            ctx.violation(viol("descr-header-footer-present-in-order", unit, path, "description present".into(), &text));
        }
    }
    if let Some(x) = pos("Usage:").or_else(|| pos("OVERRIDDEN USAGE")) {
        marks.push((x, "usage"));
    } else {
        ok = false;
        ctx.violation(viol("descr-header-footer-present-in-order", unit, path, "usage present".into(), &text));
    }
    if let Some(d) = &level.cfg.header {
        match pos(&first_paragraph(d)) {
            Some(x) => marks.push((x, "header")),
            None => {
                ok = false;
                ctx.violation(viol("descr-header-footer-present-in-order", unit, path, "header present".into(), &text));
            }
        }
    }
    if let Some(x) = pos("    -h, --help") {
        marks.push((x, "lists"));
    }
    if let Some(d) = &level.cfg.footer {
        match text.rfind(&first_paragraph(d)) {
            Some(x) => marks.push((x, "footer")),
            None => {
                ok = false;
                ctx.violation(viol("descr-header-footer-present-in-order", unit, path, "footer present".into(), &text));
            }
        }
    }
    // item lists start before the -h row; use the first list row instead for header ordering
    if marks.windows(2).any(|w| w[0].0 > w[1].0) {
        // header may legitimately precede the first list line but follow... recheck using first list line
        let first_list = lines.iter().position(|l| l.starts_with("    ") || l.starts_with("Available"));
        let _ = first_list;
        ok = false;
        ctx.violation(viol("descr-header-footer-present-in-order", unit, path, format!("order descr < usage < header < item lists < footer, got {:?}", marks.iter().map(|m| m.1).collect::<Vec<_>>()), &text));
    }
    // (d) every name shown is accepted at this level: some accepted line of this level uses it
    // (iterative deepening over the canonical occurrences of the level's visible named items)
    let occs: Vec<Tok> = vis
        .rows
        .iter()
        .filter_map(|r| match r {
            Row::Named { short, long, is_arg, in_adjacent: false, .. } => {
                let name = match long {
                    Some(l) => format!("--{}", l),
                    None => format!("-{}", short.unwrap()),
                };
                Some(Tok::s(&if *is_arg { format!("{}=v", name) } else { name }))
            }
            _ => None,
        })
        .collect();
    let mut base: Option<Option<Vec<Tok>>> = None;
    // "the parser at that level" is the level's own option parser
    let lp = match build_checked(level) {
        Ok(lp) => lp,
        Err(_) => return,
    };
    for row in &vis.rows {
        if let Row::Named { short, long, is_arg, in_adjacent, .. } = row {
            if *in_adjacent {
                continue; // judged by C19
            }
            for name in short.iter().map(|s| format!("-{}", s)).chain(long.iter().map(|l| format!("--{}", l))) {
                let tok = Tok::s(&if *is_arg { format!("{}=v", name) } else { name.clone() });
                let mut alpha = occs.clone();
                if !alpha.contains(&tok) {
                    alpha.push(tok.clone());
                }
                // required positional / command of the tail (with what the command needs below it)
                fn tail_items(v: &Visible, alpha: &mut Vec<Tok>) {
                    for r2 in &v.rows {
                        match r2 {
                            Row::Pos { in_adjacent: false, .. } => alpha.push(Tok::s("w")),
                            Row::Cmd { name, inner, .. } => {
                                alpha.push(Tok::s(name));
                                let iv = visible(inner);
                                for r3 in &iv.rows {
                                    if let Row::Named { short, long, is_arg, in_adjacent: false, .. } = r3 {
                                        let nm = match long {
                                            Some(l) => format!("--{}", l),
                                            None => format!("-{}", short.unwrap()),
                                        };
                                        alpha.push(Tok::s(&if *is_arg { format!("{}=v", nm) } else { nm }));
                                    }
                                }
                                tail_items(&iv, alpha);
                            }
                            _ => {}
                        }
                    }
                }
                tail_items(&vis, &mut alpha);
                alpha.sort();
                alpha.dedup();
                // shortest accepted line of the level (computed once), then the name added to
                // it alone or with one companion (members of a group need each other)
                if base.is_none() {
                    let mut found_base: Option<Vec<Tok>> = None;
                    for l in 0..=5usize {
                        crate::explore::tree(&alpha, l, &mut |v| {
                            if found_base.is_some() {
                                return false;
                            }
                            if v.len() == l {
                                ctx.s.evaluations += 1;
                                if let Outcome::Value(_) = run(&lp, v) {
                                    found_base = Some(v.to_vec());
                                }
                            }
                            found_base.is_none()
                        });
                        if found_base.is_some() {
                            break;
                        }
                    }
                    base = Some(found_base);
                }
                let mut found = false;
                if let Some(Some(b)) = &base {
                    let mut cands: Vec<Vec<Tok>> = vec![];
                    if b.contains(&tok) {
                        cands.push(b.clone());
                    }
                    let mut c1 = vec![tok.clone()];
                    c1.extend(b.iter().cloned());
                    cands.push(c1);
                    for x in &alpha {
                        let mut c2 = vec![tok.clone(), x.clone()];
                        c2.extend(b.iter().cloned());
                        cands.push(c2);
                        // replacing a base item (alternatives exclude each other)
                        for i in 0..b.len() {
                            let mut c3 = b.clone();
                            c3[i] = tok.clone();
                            cands.push(c3.clone());
                            c3.insert(0, x.clone());
                            cands.push(c3);
                        }
                    }
                    for c in cands {
                        ctx.s.evaluations += 1;
                        if let Outcome::Value(_) = run(&lp, &c) {
                            found = true;
                            break;
                        }
                    }
                }
                if !found {
                    ok = false;
                    ctx.violation(viol("every-name-shown-is-accepted", unit, path, format!("{} is shown, so some line of this level using it is accepted", name), &format!("no accepted line found: base {:?} + the name (+ one companion) over {:?}", base, alpha)));
                }
            }
        }
    }
    if ok {
        ctx.s.nontrivial += 1;
        ctx.s.validated += 1;
        if ctx.wants_sample() && vis.rows.len() >= 4 {
            ctx.sample(|| json!({"path": path, "expected_rows": vis.rows.iter().map(|r| r.term()).collect::<Vec<_>>(), "forbidden": vis.forbidden, "help": text}));
        }
    }
}

/// (c) hide_usage / custom_usage on any field change only the usage block
fn check_usage_variants(unit: &Value, o: &Opts, base_text: &str, ctx: &mut Ctx) {
    if let P::Seq(fields) = &o.p {
        for i in 0..fields.len() {
            if matches!(fields[i], P::Pos { .. } | P::Cmd { .. }) || fields[i].size() > 40 {
                continue;
            }
            for variant in 0..4 {
                let mut f2 = fields.clone();
                // variants 2 and 3: the annotation sits INSIDE the field's outermost wrapper when
                // that wrapper is what puts the field into the lists (a titled group, a shown default)
                let deco = |x: P| if variant % 2 == 0 { P::HideUsage(x.bx()) } else { P::CustomUsage(x.bx(), DocSpec::plain("SOMETHING")) };
                f2[i] = if variant < 2 {
                    deco(f2[i].clone())
                } else {
                    match f2[i].clone() {
                        P::GroupHelp(x, d) => P::GroupHelp(deco(*x).bx(), d),
                        P::WithGroupHelp(x, d) => P::WithGroupHelp(deco(*x).bx(), d),
                        P::Fallback(x, v, shown) => P::Fallback(deco(*x).bx(), v, shown),
                        P::Optional(x, c) => P::Optional(deco(*x).bx(), c),
                        _ => continue,
                    }
                };
                let o2 = Opts { p: P::Seq(f2), cfg: o.cfg.clone() };
                let p2 = match build_checked(&o2) {
                    Ok(p) => p,
                    Err(_) => continue,
                };
                ctx.s.evaluations += 1;
                ctx.s.transitions += 1;
                if let Outcome::Stdout { text, .. } = help_text(&p2, &[]) {
                    if after_usage(&text) != after_usage(base_text) {
                        ctx.violation(viol("hide_usage-custom_usage-change-only-the-usage-line", unit, &[], format!("item lists unchanged when field {} gets {}{}", i, if variant % 2 == 0 { "hide_usage" } else { "custom_usage" }, if variant >= 2 { " inside its outermost wrapper" } else { "" }), &text));
                    } else {
                        ctx.count("usage-variants-compared");
                    }
                }
            }
        }
    }
}

fn run_def(unit: &Value, o: &Opts, only_path: Option<&[String]>, ctx: &mut Ctx) {
    let p = match build_checked(o) {
        Ok(p) => p,
        Err(e) => {
            ctx.violation(viol("definition-builds", unit, &[], "parser can be constructed".into(), &e));
            return;
        }
    };
    if catch(|| p.check_invariants(false)).is_err() {
        ctx.s.skipped += 1;
        return;
    }
    for (path, level) in levels(o) {
        if let Some(op) = only_path {
            if op != path.as_slice() {
                continue;
            }
        }
        check_level(unit, &p, &path, &level, ctx);
    }
    if only_path.map_or(true, |p| p.is_empty()) {
        if let Outcome::Stdout { text, .. } = help_text(&p, &[]) {
            check_usage_variants(unit, o, &text, ctx);
        }
    }
}

fn same_but_path(full: &str, alone: &str) -> bool {
    let (fl, al): (Vec<&str>, Vec<&str>) = (full.lines().collect(), alone.lines().collect());
    fl.len() == al.len()
        && fl.iter().zip(al.iter()).all(|(f, a)| match (f.strip_prefix("Usage: "), a.strip_prefix("Usage: ")) {
            (Some(f), Some(a)) => f.ends_with(a),
            _ => f == a,
        })
}

/// help asked for behind earlier members of a chain is the help of the command it follows
fn prefix_clause(unit: &Value, u: &Unit, only_path: Option<&[String]>, ctx: &mut Ctx) {
    if u.prefixes.is_empty() {
        return;
    }
    let p = match build_checked(&u.opts) {
        Ok(p) => p,
        Err(_) => return,
    };
    for (path, _) in levels(&u.opts) {
        if path.len() != 1 {
            continue;
        }
        let alone = match help_text(&p, &path) {
            Outcome::Stdout { text, .. } => text,
            _ => continue, // reported by check_level
        };
        for pre in &u.prefixes {
            let mut full = pre.clone();
            full.extend(path.iter().cloned());
            if only_path.map_or(false, |op| op != full.as_slice()) {
                continue;
            }
            ctx.begin_case(|| json!({"path": full}));
            ctx.s.evaluations += 1;
            match help_text(&p, &full) {
                // (the path shown in the usage line accumulates the earlier commands; everything
                // else, including the items in the usage line, is the text of the level)
                Outcome::Stdout { text, .. } if same_but_path(&text, &alone) => ctx.s.nontrivial += 1,
                other => ctx.violation(viol("help-behind-earlier-commands-is-the-help-of-the-last-one", unit, &full, format!("the text printed for {:?} --help", path), &format!("{:?}", other))),
            }
        }
    }
}

impl Check for C12 {
    fn id(&self) -> &'static str {
        "C12"
    }
    fn level(&self) -> &'static str {
        "exploration"
    }
    fn units(&self, tier: Tier, _seed: u64) -> Vec<Value> {
        extra_units().into_iter().chain(doc_defs(3).into_iter().map(|o| Unit { opts: o, prefixes: vec![] })).map(|u| serde_json::to_value(u).unwrap()).collect()
    }
    fn run_unit(&self, unit: &Value, ctx: &mut Ctx) {
        let u: Unit = serde_json::from_value(unit.clone()).unwrap();
        // first with the variable of the env-backed item unset, then holding a value with a blank
        // line in it (the value is shown in the help; the rows after it must stay)
        std::env::remove_var("BPAFMC_DOC");
        run_def(unit, &u.opts, None, ctx);
        prefix_clause(unit, &u, None, ctx);
        if serde_json::to_string(&u.opts).map_or(false, |t| t.contains("BPAFMC_DOC")) {
            std::env::set_var("BPAFMC_DOC", "a\n\nb");
            run_def(unit, &u.opts, None, ctx);
            std::env::remove_var("BPAFMC_DOC");
        }
    }
    fn replay(&self, unit: &Value, case: &Value, ctx: &mut Ctx) {
        let u: Unit = serde_json::from_value(unit.clone()).unwrap();
        let path: Vec<String> = serde_json::from_value(case["path"].clone()).unwrap_or_default();
        std::env::remove_var("BPAFMC_DOC");
        ctx.s.evaluations += 1;
        run_def(unit, &u.opts, Some(&path), ctx);
        prefix_clause(unit, &u, Some(&path), ctx);
        if ctx.s.violations.is_empty() && serde_json::to_string(&u.opts).map_or(false, |t| t.contains("BPAFMC_DOC")) {
            std::env::set_var("BPAFMC_DOC", "a\n\nb");
            run_def(unit, &u.opts, Some(&path), ctx);
            std::env::remove_var("BPAFMC_DOC");
        }
    }
    fn rule(&self) -> String {
        "definitions = every ordered tuple of <=3 distinct fields from 15 kinds (switch, env argument, short-only argument, hidden switch, aliases, alternative, group_help group, with_group_help, displayed fallback, hide_usage, custom_usage, the same item in two alternatives, adjacent group, repeated argument with a two-paragraph help, optional group) x 8 tails (none, positional with / without help, strict positional, choice of commands incl. a hidden one and aliases, nested commands of depth 3, a command beside a flag in one titled group, command paths differing only in dash versus nesting) x 4 option-level configurations; for EVERY command level reachable by visible commands the --help text is checked against an independent visibility calculator: each visible item has exactly one row with its first short/long name, metavariable and first help paragraph, env state shown (variable unset, and holding a value with a blank line), no option-like token that is not a visible name (hidden items, alias names, hidden commands never shown), command rows only for visible commands, the help flag listed under the options heading and positionals not under it, descr < usage < header < lists < footer, each shown name accepted by the parser; hide_usage/custom_usage applied to every field leave everything after the usage block identical; evaluation = one run; non-trivial = level with all clauses satisfied; plus a command as one branch of a choice beside a word-taking branch (both orders) and --help behind earlier members of a chain of adjacent commands (text of the last command, path prefix of the usage line ignored); plus usage annotations inside a field's outermost wrapper, a help of styled fragments with the paragraph break in the middle, a command and a positional spelled alike".into()
    }
    fn bounds(&self, tier: Tier) -> Value {
        json!({"fields": "<=3 of 15 kinds + tail", "levels": "every command path, depth <=3"})
    }
}
