//! C03 — order of named options is irrelevant (metamorphic, exhaustive): every base vector of
//! the token tree is cut into whole occurrences and every order-preserving permutation of them
//! must give the same outcome.
use crate::conv::*;
use crate::def::*;
use crate::explore::*;
use crate::fam;
use crate::run::*;
use crate::shape::*;
use crate::sup::*;
use serde::{Deserialize, Serialize};
use serde_json::{json, Value};
use std::collections::BTreeMap;

pub struct C03;

#[derive(Serialize, Deserialize)]
pub struct Unit {
    pub opts: Opts,
    pub len: usize,
    pub family: String,
    /// alphabet override (conventional levels)
    #[serde(default)]
    pub alpha: Vec<Tok>,
}

/// exclusive alternatives of groups that share a switch: `{-v [--level L]} | {-v --out O FILE..}`
pub fn alt_groups() -> Vec<(Opts, Vec<Tok>)> {
    let v = || P::Switch(Names::both('v', "verbose"));
    let l = || P::arg(Names::long("level"), Ty::Os).opt();
    let o = || P::arg(Names::both('o', "out"), Ty::Os);
    let r = || P::ReqFlag(Names::short('r'));
    let templates: Vec<Vec<P>> = vec![
        vec![v(), l()],
        vec![v(), o()],
        vec![v(), o(), P::pos(Ty::Os).many()],
        vec![r(), v()],
        vec![o(), l()],
        vec![v(), o(), l()],
    ];
    let mut out = vec![];
    for (i, a) in templates.iter().enumerate() {
        for (j, b) in templates.iter().enumerate() {
            if i == j {
                continue;
            }
            let alt = P::Alt(vec![P::Map(P::Seq(a.clone()).bx(), "A".into()), P::Map(P::Seq(b.clone()).bx(), "B".into())]);
            for nb in 0..3 {
                let q = P::Switch(Names::short('q'));
                let fields = match nb {
                    0 => vec![alt.clone()],
                    1 => vec![q, alt.clone()],
                    _ => vec![alt.clone(), q],
                };
                let mut alpha = toks(&["-v", "--level=v", "--out", "-o=w", "--out=", "-r", "v", "w", "--"]);
                if nb > 0 {
                    alpha.push(Tok::s("-q"));
                }
                out.push((Opts::new(P::Seq(fields)), alpha));
            }
        }
    }
    out
}

/// the name table used for cutting vectors: help and version requests are named occurrences
/// too (two more fields)
fn c03_table(u: &Unit) -> Table {
    let mut t = if u.family == "alt-groups" { fine_table(&u.opts) } else { table(&u.opts) };
    if u.family == "help-version" {
        let info = |field: usize| NameInfo { field, is_arg: false, multi: true, hidden: false, ty: Ty::Os, transformed: false };
        t.longs.insert("help".into(), info(9001));
        t.shorts.insert('h', info(9001));
        t.longs.insert("version".into(), info(9002));
        t.shorts.insert('V', info(9002));
    }
    t
}

/// the items written right of a command name: the sub-command's own named occurrences and the
/// enclosing level's (which it still owns there) may be permuted among themselves too
#[allow(clippy::too_many_arguments)]
fn permute_right_of_command(unit: &Value, family: &str, p: &bpaf::OptionParser<Val>, t: &Table, argv: &[Tok], seg: &Segmented, base: &Outcome, ctx: &mut Ctx) -> u64 {
    if !seg.rest_is_cmd || family != "conventional" {
        return 0;
    }
    let u: Unit = match serde_json::from_value(unit.clone()) {
        Ok(u) => u,
        Err(_) => return 0,
    };
    let name = match argv[seg.fixed_from].utf8() {
        Some(n) => n.to_string(),
        None => return 0,
    };
    fn find<'a>(p: &'a P, name: &str, out: &mut Option<&'a Opts>) {
        if out.is_some() {
            return;
        }
        if let P::Cmd { name: n, shorts, longs, inner, .. } = p {
            if n == name || longs.iter().any(|l| l == name) || shorts.iter().any(|c| c.to_string() == name) {
                *out = Some(inner);
            }
            return;
        }
        match p {
            P::Seq(v) | P::Alt(v) | P::Choice(v) | P::Adj(v) => v.iter().for_each(|x| find(x, name, out)),
            P::Optional(x, _) | P::Many(x, _) | P::Some_(x, _) | P::Fallback(x, _, _) | P::FallbackWith(x, _) | P::Hide(x) | P::Map(x, _) => find(x, name, out),
            _ => {}
        }
    }
    let mut inner = None;
    find(&u.opts.p, &name, &mut inner);
    let inner = match inner {
        Some(i) => i,
        None => return 0,
    };
    // the sub-level's names plus the enclosing level's (as further fields)
    let mut t2 = table(inner);
    for (k, v) in &t.shorts {
        let mut v = v.clone();
        v.field += 10_000;
        t2.shorts.entry(*k).or_insert(v);
    }
    for (k, v) in &t.longs {
        let mut v = v.clone();
        v.field += 10_000;
        t2.longs.entry(k.clone()).or_insert(v);
    }
    t2.flag_shorts.extend(t.flag_shorts.iter().copied());
    t2.arg_shorts.extend(t.arg_shorts.iter().copied());
    let tail = &argv[seg.fixed_from + 1..];
    let seg2 = match segment(&t2, tail) {
        Some(s) if !s.rest_is_cmd && s.blocks.len() >= 2 => s,
        _ => return 0,
    };
    let identity: Vec<usize> = (0..seg2.blocks.len()).collect();
    let mut perms = 0u64;
    orderings(&seg2.blocks, &mut |order| {
        if order == identity.as_slice() {
            return;
        }
        let mut argv2 = argv[..=seg.fixed_from].to_vec();
        argv2.extend(apply_order(tail, &seg2, order));
        ctx.begin_case(|| json!({"base": argv, "perm": argv2}));
        let r = run(p, &argv2);
        ctx.s.evaluations += 1;
        ctx.s.transitions += 1;
        perms += 1;
        ctx.count("permutations-right-of-a-command-name");
        if equivalent(base, &r) {
            return;
        }
        let mut sig = BTreeMap::new();
        sig.insert("family".to_string(), "conventional-right-of-command".to_string());
        sig.insert("base".to_string(), base.class().to_string());
        sig.insert("permuted".to_string(), r.class().to_string());
        ctx.violation(Violation {
            property: "C03".into(),
            rule: "permuting-whole-named-occurrences-keeps-the-outcome".into(),
            sig,
            unit: unit.clone(),
            case: json!({"base": argv, "perm": argv2}),
            expected: format!("same outcome as the base order: {}", base.brief()),
            observed: r.brief(),
            size: argv.len() * 1000 + argv.iter().map(|t| t.0.len()).sum::<usize>(),
        });
    });
    perms
}

fn equivalent(a: &Outcome, b: &Outcome) -> bool {
    match (a, b) {
        (Outcome::Value(x), Outcome::Value(y)) => x == y,
        (Outcome::Stderr(_), Outcome::Stderr(_)) => true,
        (Outcome::Stdout { text: x, .. }, Outcome::Stdout { text: y, .. }) => x == y,
        (Outcome::Completion(x), Outcome::Completion(y)) => x == y,
        _ => false,
    }
}

pub fn check_vector(unit: &Value, family: &str, p: &bpaf::OptionParser<Val>, t: &Table, argv: &[Tok], ctx: &mut Ctx) {
    // a single-dash item of several letters one of which is not declared is a plain word to the
    // parser (`-éx`): for cutting the line it stands for a word, the permutations move the item
    let seg_argv: Vec<Tok> = argv
        .iter()
        .map(|tk| match tk.utf8() {
            Some(s) if s.starts_with('-') && !s.starts_with("--") && s.chars().count() > 2 && !s.contains('=') && s.chars().skip(1).any(|c| !t.flag_shorts.contains(&c) && !t.arg_shorts.contains(&c)) && !s.chars().skip(1).take(1).any(|c| t.arg_shorts.contains(&c)) => Tok::s("w"),
            _ => tk.clone(),
        })
        .collect();
    let seg = match segment(t, &seg_argv) {
        Some(s) => s,
        None => {
            ctx.s.skipped += 1;
            return;
        }
    };
    if seg.blocks.len() < 2 {
        if seg.rest_is_cmd && family == "conventional" {
            let base = run(p, argv);
            ctx.s.evaluations += 1;
            let n = permute_right_of_command(unit, family, p, t, argv, &seg, &base, ctx);
            if n > 0 {
                ctx.s.states += 1;
                ctx.count_n("permutations", n);
                return;
            }
        }
        ctx.count("base-vectors-with-nothing-to-permute");
        return;
    }
    let base = run(p, argv);
    ctx.s.evaluations += 1;
    let mut perms = 0u64;
    let mut any_accept = matches!(base, Outcome::Value(_));
    let identity: Vec<usize> = (0..seg.blocks.len()).collect();
    orderings(&seg.blocks, &mut |order| {
        if order == identity.as_slice() {
            return;
        }
        let argv2 = apply_order(argv, &seg, order);
        ctx.begin_case(|| json!({"base": argv, "perm": argv2}));
        let r = run(p, &argv2);
        ctx.s.evaluations += 1;
        ctx.s.transitions += 1;
        perms += 1;
        if matches!(r, Outcome::Value(_)) {
            any_accept = true;
        }
        if equivalent(&base, &r) {
            if ctx.wants_sample() && matches!(base, Outcome::Value(_)) && argv.len() >= 3 {
                ctx.sample(|| json!({"family": family, "base": argv, "permuted": argv2, "outcome": r.brief()}));
            }
            return;
        }
        let mut sig = BTreeMap::new();
        sig.insert("family".to_string(), family.to_string());
        sig.insert("base".to_string(), base.class().to_string());
        sig.insert("permuted".to_string(), r.class().to_string());
        let kinds: Vec<String> = seg.blocks.iter().map(|b| format!("{:?}", b.kind)).collect();
        sig.insert("blocks".to_string(), kinds.join(","));
        ctx.violation(Violation {
            property: "C03".into(),
            rule: "permuting-whole-named-occurrences-keeps-the-outcome".into(),
            sig,
            unit: unit.clone(),
            case: json!({"base": argv, "perm": argv2}),
            expected: format!("same outcome as the base order: {}", base.brief()),
            observed: r.brief(),
            size: argv.len() * 1000 + argv.iter().map(|t| t.0.len()).sum::<usize>(),
        });
    });
    perms += permute_right_of_command(unit, family, p, t, argv, &seg, &base, ctx);
    if perms > 0 {
        ctx.s.states += 1;
        ctx.count_n("permutations", perms);
        if any_accept {
            ctx.s.nontrivial += 1;
        } else {
            ctx.count("permuted-but-rejected-in-every-order");
        }
    }
}

// ------------------------------------------------------------------------------------------
// one name declared twice (an `adjacent` argument and a switch / a plain argument of the same
// name, C02's definitions): the occurrences feed different fields, so they may be permuted
// ------------------------------------------------------------------------------------------
fn run_shared_name(kind: usize, unit: &Value, only: Option<&[Tok]>, ctx: &mut Ctx) {
    // kinds >= 10: long names that are prefixes of each other (`--config` / `--config-dir` /
    // `--con`), the shorter one declared first / last, values detached / attached
    let opts = if kind >= 10 {
        let config = P::arg(Names::long("config"), Ty::Os);
        let dir = P::arg(Names::long("config-dir"), Ty::Os).opt();
        let con = P::Switch(Names::long("con"));
        let v = P::Switch(Names::short('v'));
        Opts::new(P::Seq(if kind % 2 == 0 { vec![config, dir, con, v] } else { vec![v, con, dir, config] }))
    } else {
        crate::checks::c02::dual_opts(&crate::checks::c02::Dual { kind, len: 0 })
    };
    let p = match build_checked(&opts) {
        Ok(p) => p,
        Err(_) => return,
    };
    // blocks with the field they feed; blocks of one field keep their relative order
    let blocks: Vec<(usize, Vec<&str>)> = if kind >= 12 {
        vec![(0, vec!["--config=a"]), (1, vec!["--config-dir=d"]), (2, vec!["--con"]), (3, vec!["-v"])]
    } else if kind >= 10 {
        vec![(0, vec!["--config", "a"]), (1, vec!["--config-dir", "d"]), (2, vec!["--con"]), (3, vec!["-v"])]
    } else if kind == 1 {
        vec![(0, vec!["--name=a"]), (1, vec!["--name"]), (2, vec!["-v"])]
    } else {
        vec![(0, vec!["--name=a"]), (0, vec!["-n=b"]), (1, vec!["--name", "x"]), (1, vec!["-n", "x"]), (2, vec!["-v"])]
    };
    let n = blocks.len();
    let mut orders: Vec<Vec<usize>> = vec![];
    crate::explore::permutations(n, &mut |perm| {
        let keeps = (0..n).all(|a| (a + 1..n).all(|b| blocks[a].0 != blocks[b].0 || perm.iter().position(|x| *x == a) < perm.iter().position(|x| *x == b)));
        if keeps {
            orders.push(perm.to_vec());
        }
    });
    let render = |o: &[usize]| -> Vec<Tok> { o.iter().flat_map(|i| blocks[*i].1.iter().map(|s| Tok::s(s))).collect() };
    let base_argv = render(&(0..n).collect::<Vec<_>>());
    let base = run(&p, &base_argv);
    ctx.s.evaluations += 1;
    for o in &orders {
        let argv = render(o);
        if argv == base_argv {
            continue;
        }
        if let Some(x) = only {
            if x != argv.as_slice() {
                continue;
            }
        }
        ctx.begin_case(|| json!({"base": base_argv, "perm": argv}));
        ctx.s.evaluations += 1;
        ctx.s.transitions += 1;
        let r = run(&p, &argv);
        if equivalent(&base, &r) {
            ctx.count("shared-name-permutations");
            ctx.s.nontrivial += 1;
            continue;
        }
        let mut sig = BTreeMap::new();
        sig.insert("family".to_string(), format!("shared-name-{}", kind));
        sig.insert("base".to_string(), base.class().to_string());
        sig.insert("permuted".to_string(), r.class().to_string());
        ctx.violation(Violation { property: "C03".into(), rule: "permuting-whole-named-occurrences-keeps-the-outcome".into(), sig, unit: unit.clone(), case: json!({"base": base_argv, "perm": argv}), expected: format!("same outcome as the base order: {}", base.brief()), observed: r.brief(), size: argv.len() * 1000 });
    }
    ctx.s.states += 1;
}

impl Check for C03 {
    fn id(&self) -> &'static str {
        "C03"
    }
    fn level(&self) -> &'static str {
        "exploration"
    }
    fn units(&self, tier: Tier, seed: u64) -> Vec<Value> {
        let mut out = vec![];
        // general shapes
        let (n, len) = tier.pick((2, 4), (2, 5));
        for o in shapes(1, seed).into_iter().chain(shapes(n, seed)) {
            out.push(serde_json::to_value(Unit { opts: o, len, family: "shapes".into(), alpha: vec![] }).unwrap());
        }
        if tier == Tier::Thorough {
            for o in shapes(3, seed) {
                out.push(serde_json::to_value(Unit { opts: o, len: 4, family: "shapes3".into(), alpha: vec![] }).unwrap());
            }
        }
        // conventional levels (positionals between named items, sub-commands)
        let mut tails = vec![Tail::None];
        tails.extend(fam::pos_tails());
        tails.extend(fam::cmd_tails(seed, false, false));
        for l in fam::conventional(2, &tails, seed) {
            let mut alpha = alphabet(&l, AlphaStyle::Compact);
            // an undeclared dash-digit item (looks like a negative number)
            alpha.push(Tok::s("-5"));
            // an explicitly empty attached value is a whole occurrence too
            for n in &l.named {
                if n.kind.is_arg() {
                    if let Some(lg) = n.names.longs.first() {
                        alpha.push(Tok::s(&format!("--{}=", lg)));
                    } else if let Some(c) = n.names.shorts.first() {
                        alpha.push(Tok::s(&format!("-{}=", c)));
                    }
                }
            }
            out.push(serde_json::to_value(Unit { opts: l.to_opts(), len: tier.pick(3, 4), family: "conventional".into(), alpha }).unwrap());
        }
        // multi-byte short flags; blocks mixing them with undeclared letters are words
        for tail in [fam::pos(&[PosKind::Many]), fam::pos(&[PosKind::Opt])] {
            let mk = |c: char, kind: Kind| Named { names: Names::short(c), kind, hidden: false, ty: Ty::Os, adjacent: false, guarded: false };
            let l = fam::leaf(vec![mk('é', Kind::Switch), mk('a', Kind::Switch), mk('ж', Kind::Count)], tail);
            out.push(serde_json::to_value(Unit { opts: l.to_opts(), len: tier.pick(4, 5), family: "non-ascii-shorts".into(), alpha: toks(&["-é", "-a", "-ж", "-éx", "-жжx", "w", "-z"]) }).unwrap());
        }
        // help and version requests among the named items of a level that configures a version
        for mut l in fam::conventional(1, &[Tail::None, fam::pos(&[PosKind::Opt])], seed + 1) {
            l.version = Some("1.2.3".into());
            let mut alpha = alphabet(&l, AlphaStyle::Compact);
            alpha.extend(toks(&["--help", "-h", "--version", "-V"]));
            out.push(serde_json::to_value(Unit { opts: l.to_opts(), len: tier.pick(3, 4), family: "help-version".into(), alpha }).unwrap());
        }
        for (o, alpha) in alt_groups() {
            out.push(serde_json::to_value(Unit { opts: o, len: tier.pick(4, 5), family: "alt-groups".into(), alpha }).unwrap());
        }
        for kind in (0..3).chain(10..14) {
            out.push(json!({"shared_name": kind}));
        }
        out
    }
    fn run_unit(&self, unit: &Value, ctx: &mut Ctx) {
        if let Some(k) = unit.get("shared_name").and_then(|k| k.as_u64()) {
            run_shared_name(k as usize, unit, None, ctx);
            return;
        }
        let u: Unit = serde_json::from_value(unit.clone()).unwrap();
        let p = match build_checked(&u.opts) {
            Ok(p) => p,
            Err(_) => return,
        };
        let t = c03_table(&u);
        let mut alpha = if u.alpha.is_empty() { shape_alphabet(&u.opts) } else { u.alpha.clone() };
        if u.alpha.is_empty() && u.len > 3 {
            // undeclared items among the occurrences are the conventional family's business
            alpha.retain(|t| t.0 != b"-z");
        }
        if u.alpha.is_empty() && u.len <= 3 {
            // an undeclared dash-digit item (looks like a negative number)
            alpha.push(Tok::s("-5"));
        }
        tree(&alpha, u.len, &mut |argv| {
            if argv.len() >= 2 {
                check_vector(unit, &u.family, &p, &t, argv, ctx);
            }
            true
        });
    }
    fn replay(&self, unit: &Value, case: &Value, ctx: &mut Ctx) {
        if let Some(k) = unit.get("shared_name").and_then(|k| k.as_u64()) {
            let want: Vec<Tok> = serde_json::from_value(case["perm"].clone()).unwrap_or_default();
            run_shared_name(k as usize, unit, Some(&want), ctx);
            return;
        }
        let u: Unit = serde_json::from_value(unit.clone()).unwrap();
        let base: Vec<Tok> = serde_json::from_value(case["base"].clone()).unwrap_or_default();
        let want: Option<Vec<Tok>> = serde_json::from_value(case["perm"].clone()).ok();
        let p = match build_checked(&u.opts) {
            Ok(p) => p,
            Err(_) => return,
        };
        let t = c03_table(&u);
        let mut c2 = Ctx::new(ctx.tier, ctx.seed);
        check_vector(unit, &u.family, &p, &t, &base, &mut c2);
        for (k, (n, v)) in c2.s.violations {
            let same = match &want {
                Some(w) => serde_json::from_value::<Vec<Tok>>(v.case["perm"].clone()).map_or(false, |a| &a == w),
                None => true,
            };
            if same {
                ctx.s.violations.insert(k, (n, v));
            }
        }
        ctx.s.evaluations += c2.s.evaluations;
    }
    fn rule(&self) -> String {
        "definitions = all ordered tuples of <=2 (thorough: 3) distinct field kinds from 12 (switch, argument, repeated argument, bare and repeated choice, optional and repeated group, hidden argument with fallback, guarded u32, counter, parse+fallback, optional choice with a defaulted branch) x 4 tails, plus the conventional family (alphabet with explicitly empty attached values `--name=`), plus exclusive alternatives of groups that share a switch ({-v [--level L]} | {-v --out O FILE..}, 30 ordered pairs of 6 group templates, with and without a neighbouring switch; here a field is a leaf parser, so items of one group and of different branches are permuted freely); plus levels with a configured version whose alphabet contains the help and version requests (--help -h --version -V are named occurrences of two more fields; equal stdout text demanded); base vectors = every vector of the token tree; each base vector that is a sequence of whole occurrences is cut into blocks (flag / argument with its value / word / undeclared dash item such as -z or -5, which keeps its place among the words; nothing crosses a command name or `--`; the occurrences right of a command name, the sub-command own ones and those of the enclosing level, are permuted among themselves as well) and EVERY permutation that keeps the relative order of blocks feeding one field and of the words is run and compared with the base outcome (equal value, or same failure class); evaluation = one run; non-trivial = base vector with at least one different permuted vector and at least one accepted order; plus long names that are prefixes of each other (--config, --config-dir, --con; shorter declared first / last; detached / attached values): all 24 orders of the four blocks".into()
    }
    fn bounds(&self, tier: Tier) -> Value {
        json!({"fields_per_level": tier.pick("<=2 + tail", "<=3 + tail"), "vector_length": tier.pick("4 (shapes), 3 (conventional)", "5 (shapes), 4 (3-field shapes, conventional)")})
    }
    fn assumptions(&self) -> Vec<String> {
        vec!["vectors that are not sequences of whole occurrences (unknown names, argument without value) are not permuted; they are judged by C01/C05".into()]
    }
}
