//! C05 — every command-line item is used exactly once or the run fails.
//! (a) ledger: on success the value leaves are exactly the value items of the line;
//! (b) foreign items: an unknown flag, `--flag=x` for a declared flag, a second copy of a
//!     single-use option, a surplus word inserted at every position of every accepted vector
//!     must turn it into an stderr failure.
use crate::conv::*;
use crate::def::*;
use crate::explore::*;
use crate::fam;
use crate::run::*;
use crate::shape::*;
use crate::sup::*;
use serde::{Deserialize, Serialize};
use serde_json::{json, Value};
use std::collections::BTreeMap;

pub struct C05;

#[derive(Serialize, Deserialize)]
pub struct Unit {
    pub opts: Opts,
    pub len: usize,
    pub family: String,
    #[serde(default)]
    pub alpha: Vec<Tok>,
    /// `last` drops values by design: no ledger clause
    #[serde(default)]
    pub no_ledger: bool,
}

const MARKERS: [&str; 6] = ["DEF", "DEFB", "on", "off", "nocmd", "absent"];

fn has_last(p: &P) -> bool {
    let mut r = matches!(p, P::Last(_));
    p.children(&mut |c| r |= has_last(c));
    r
}

fn viol(rule: &str, family: &str, what: &str, unit: &Value, base: &[Tok], argv: &[Tok], expected: String, r: &Outcome) -> Violation {
    let mut sig = BTreeMap::new();
    sig.insert("family".to_string(), family.to_string());
    sig.insert("inserted".to_string(), what.to_string());
    sig.insert("observed".to_string(), r.class().to_string());
    Violation { property: "C05".into(), rule: rule.into(), sig, unit: unit.clone(), case: json!({"base": base, "argv": argv, "what": what}), expected, observed: r.brief(), size: argv.len() * 1000 + argv.iter().map(|t| t.0.len()).sum::<usize>() }
}

fn insert_at(argv: &[Tok], pos: usize, ins: &[Tok]) -> Vec<Tok> {
    let mut v = argv[..pos].to_vec();
    v.extend_from_slice(ins);
    v.extend_from_slice(&argv[pos..]);
    v
}

pub fn check_accepted(unit: &Value, u: &Unit, p: &bpaf::OptionParser<Val>, t: &Table, argv: &[Tok], val: &Val, only: Option<&str>, ctx: &mut Ctx) {
    let dd = argv.iter().position(|x| x.0 == b"--").unwrap_or(argv.len());
    let seg = segment(t, argv);
    // (a) ledger
    if only.is_none() || only == Some("ledger") {
        if let Some(seg) = &seg {
            if !seg.rest_is_cmd && !u.no_ledger {
                let mut expected: Vec<Vec<u8>> = vec![];
                for b in &seg.blocks {
                    if b.ty == Ty::U32 {
                        continue;
                    }
                    if let Some(v) = &b.value {
                        expected.push(v.0.to_ascii_lowercase());
                    }
                }
                for tk in argv.iter().skip(seg.fixed_from + 1) {
                    expected.push(tk.0.to_ascii_lowercase());
                }
                let mut leaves = vec![];
                val.leaves(&mut leaves);
                let mut got: Vec<Vec<u8>> = leaves.into_iter().filter(|l| !MARKERS.iter().any(|m| l.0 == m.as_bytes())).map(|l| l.0.to_ascii_lowercase()).collect();
                expected.sort();
                got.sort();
                ctx.count("ledger-checked");
                if expected != got {
                    let r = Outcome::Value(val.clone());
                    ctx.violation(viol("ledger-no-item-dropped-or-delivered-twice", &u.family, "none", unit, argv, argv, format!("value leaves {:?}", expected.iter().map(|x| Tok(x.clone()).enc()).collect::<Vec<_>>()), &r));
                }
            }
        }
    }
    // (b) foreign items
    let mut try_ins = |what: &str, ins: &[Tok], ctx: &mut Ctx| {
        if let Some(o) = only {
            if o != what {
                return;
            }
        }
        for pos in 0..=dd {
            let v2 = insert_at(argv, pos, ins);
            ctx.begin_case(|| json!({"argv": v2}));
            ctx.s.evaluations += 1;
            ctx.s.transitions += 1;
            let r = run(p, &v2);
            match &r {
                Outcome::Stderr(t) if !t.trim().is_empty() => {}
                _ => ctx.violation(viol("foreign-item-fails", &u.family, what, unit, argv, &v2, "stderr failure".into(), &r)),
            }
        }
    };
    try_ins("unknown-short", &toks(&["-z"]), ctx);
    try_ins("unknown-long", &toks(&["--zz"]), ctx);
    // `--flag=x` for every declared flag of the top level
    for (l, info) in &t.longs {
        if !info.is_arg {
            try_ins("flag-with-value", &[Tok::s(&format!("--{}=x", l))], ctx);
        }
    }
    for (s, info) in &t.shorts {
        if !info.is_arg {
            try_ins("short-flag-with-value", &[Tok::s(&format!("-{}=x", s))], ctx);
        }
    }
    if let Some(seg) = &seg {
        // second copy of a single-use option that is present
        for b in &seg.blocks {
            if b.kind != BlockKind::Word && !b.multi && b.fields.len() == 1 {
                let copy = argv[b.start..b.end].to_vec();
                try_ins(if b.kind == BlockKind::Arg { "second-copy-of-single-use-argument" } else { "second-copy-of-single-use-flag" }, &copy, ctx);
            }
        }
        // surplus word when the positional capacity is finite and full
        if t.cmds.is_empty() && !t.has_adjacent && t.positionals.iter().all(|(multi, in_alt)| !multi && !in_alt) {
            let words = seg.blocks.iter().filter(|b| b.kind == BlockKind::Word).count() + argv.len().saturating_sub(seg.fixed_from + 1);
            if words == t.positionals.len() {
                try_ins("surplus-word", &toks(&["q"]), ctx);
            }
        }
    }
    if ctx.wants_sample() && argv.len() >= 3 {
        ctx.sample(|| json!({"family": u.family, "accepted": argv, "value": format!("{:?}", val), "insertions": "every position x {-z, --zz, --flag=x, copies, surplus word}: all stderr"}));
    }
}

impl Check for C05 {
    fn id(&self) -> &'static str {
        "C05"
    }
    fn level(&self) -> &'static str {
        "exploration"
    }
    fn units(&self, tier: Tier, seed: u64) -> Vec<Value> {
        let mut out = vec![];
        let (n, len) = tier.pick((2, 4), (2, 5));
        for o in shapes(1, seed).into_iter().chain(shapes(n, seed)) {
            let nl = has_last(&o.p);
            out.push(serde_json::to_value(Unit { opts: o, len, family: "shapes".into(), alpha: vec![], no_ledger: nl }).unwrap());
        }
        if tier == Tier::Thorough {
            for o in shapes(3, seed) {
                out.push(serde_json::to_value(Unit { opts: o, len: 4, family: "shapes3".into(), alpha: vec![], no_ledger: false }).unwrap());
            }
        }
        let mut tails = vec![Tail::None];
        tails.extend(fam::pos_tails());
        tails.extend(fam::cmd_tails(seed, false, true));
        for l in fam::conventional(2, &tails, seed) {
            let alpha = alphabet(&l, AlphaStyle::Compact);
            let o = l.to_opts();
            let nl = has_last(&o.p);
            out.push(serde_json::to_value(Unit { opts: o, len: tier.pick(3, 4), family: "conventional".into(), alpha, no_ledger: nl }).unwrap());
        }
        for (o, fam) in crate::checks::c19::group_shapes(seed) {
            let alpha = crate::checks::c19::group_alphabet(&o);
            out.push(serde_json::to_value(Unit { opts: o, len: tier.pick(4, 5), family: fam, alpha, no_ledger: true }).unwrap());
        }
        out
    }
    fn run_unit(&self, unit: &Value, ctx: &mut Ctx) {
        let u: Unit = serde_json::from_value(unit.clone()).unwrap();
        let p = match build_checked(&u.opts) {
            Ok(p) => p,
            Err(_) => return,
        };
        let t = table(&u.opts);
        let alpha = if u.alpha.is_empty() { shape_alphabet(&u.opts) } else { u.alpha.clone() };
        tree(&alpha, u.len, &mut |argv| {
            ctx.s.states += 1;
            ctx.s.evaluations += 1;
            if let Outcome::Value(v) = run(&p, argv) {
                if !argv.is_empty() {
                    ctx.s.nontrivial += 1;
                }
                ctx.count("accepted-vectors");
                check_accepted(unit, &u, &p, &t, argv, &v, None, ctx);
            }
            true
        });
    }
    fn replay(&self, unit: &Value, case: &Value, ctx: &mut Ctx) {
        let u: Unit = serde_json::from_value(unit.clone()).unwrap();
        let base: Vec<Tok> = serde_json::from_value(case["base"].clone()).unwrap_or_default();
        let want: Vec<Tok> = serde_json::from_value(case["argv"].clone()).unwrap_or_default();
        let what = case["what"].as_str().unwrap_or("none").to_string();
        let p = match build_checked(&u.opts) {
            Ok(p) => p,
            Err(_) => return,
        };
        let t = table(&u.opts);
        ctx.s.evaluations += 1;
        match run(&p, &base) {
            Outcome::Value(v) => {
                let mut c2 = Ctx::new(ctx.tier, ctx.seed);
                check_accepted(unit, &u, &p, &t, &base, &v, Some(if what == "none" { "ledger" } else { &what }), &mut c2);
                for (k, (n, v)) in c2.s.violations {
                    if serde_json::from_value::<Vec<Tok>>(v.case["argv"].clone()).map_or(false, |a| a == want) {
                        ctx.s.violations.insert(k, (n, v));
                    }
                }
            }
            _ => {}
        }
    }
    fn rule(&self) -> String {
        "definitions = shape family (12 field kinds, ordered tuples x 4 tails), conventional family, adjacent group / adjacent command shapes; accepted vectors are discovered by walking the whole token tree; for EVERY accepted vector: ledger (multiset of value leaves == multiset of value items of the line) and every single insertion at every position left of `--` of: -z, --zz, --flag=x / -f=x for each declared flag, a second copy of each present single-use option, a surplus word when the positional capacity is finite and full -> each must be an stderr failure; evaluation = one run; non-trivial = accepted non-empty vector".into()
    }
    fn bounds(&self, tier: Tier) -> Value {
        json!({"fields_per_level": tier.pick("<=2 + tail", "<=3 + tail"), "base_vector_length": tier.pick("4 (shapes, groups), 3 (conventional)", "5 / 4"), "insertions": "one item, every position"})
    }
}
