//! C05 — every command-line item is used exactly once or the run fails.
//! (a) ledger: on success the value leaves are exactly the value items of the line;
//! (b) foreign items: an unknown flag, `--flag=x` for a declared flag, a second copy of a
//!     single-use option, a surplus word inserted at every position of every accepted vector
//!     must turn it into an stderr failure.
use crate::conv::*;
use crate::def::*;
use crate::explore::*;
use crate::fam;
use crate::run::*;
use crate::shape::*;
use crate::sup::*;
use serde::{Deserialize, Serialize};
use serde_json::{json, Value};
use std::collections::BTreeMap;

pub struct C05;

#[derive(Serialize, Deserialize)]
pub struct Unit {
    pub opts: Opts,
    pub len: usize,
    pub family: String,
    #[serde(default)]
    pub alpha: Vec<Tok>,
    /// `last` drops values by design: no ledger clause
    #[serde(default)]
    pub no_ledger: bool,
    /// clause (c): removing any single item of an accepted vector changes the outcome
    #[serde(default)]
    pub removal: bool,
}

/// optional / repeated NON-adjacent groups whose later member gives up with a catchable error
/// after the first member has consumed: `[--files FILE...]`, `[-n NAME(non-strict)]`, groups
/// ending in a failing `pure_with` / `fail`
pub fn loose_groups() -> Vec<(Opts, Vec<Tok>)> {
    let mut out = vec![];
    let firsts = [P::ReqFlag(Names::long("files")), P::arg(Names::both('n', "name"), Ty::Os)];
    let seconds = [
        P::pos(Ty::Os).some(),
        P::Pos { ty: Ty::Os, strict: Strict::NonStrict, metavar: "POS".into(), help: None },
        P::Pos { ty: Ty::Os, strict: Strict::Strict, metavar: "POS".into(), help: None },
        P::PureWith(Err("never".into())),
        P::Fail("never".into()),
        P::arg(Names::long("height"), Ty::Os),
    ];
    for first in &firsts {
        for second in &seconds {
            for w in 0..6 {
                let g = P::Seq(vec![first.clone(), second.clone()]);
                let g = match w {
                    0 => g.opt(),
                    1 => g.many(),
                    2 => P::Collect(g.bx(), false),
                    3 => g.some(),
                    // a default for the whole group: a half-given group is not absent
                    4 => P::Fallback(g.bx(), Val::s("DEF"), false),
                    _ => P::FallbackWith(g.bx(), Ok(Val::s("DEF"))),
                };
                let mut alpha = toks(&["v", "w", "--", "-a"]);
                match first {
                    P::ReqFlag(_) => alpha.push(Tok::s("--files")),
                    _ => alpha.extend(toks(&["--name", "-n=v", "-nw"])),
                }
                if matches!(second, P::Arg { .. }) {
                    alpha.push(Tok::s("--height=v"));
                }
                for nb in 0..3 {
                    let sw = P::Switch(Names::short('a'));
                    let fields = match nb {
                        0 => vec![g.clone()],
                        1 => vec![sw, g.clone()],
                        _ => vec![g.clone(), sw],
                    };
                    out.push((Opts::new(P::Seq(fields)), alpha.clone()));
                }
            }
        }
    }
    out
}

const MARKERS: [&str; 6] = ["DEF", "DEFB", "on", "off", "nocmd", "absent"];

fn has_last(p: &P) -> bool {
    let mut r = matches!(p, P::Last(_));
    p.children(&mut |c| r |= has_last(c));
    r
}

fn viol(rule: &str, family: &str, what: &str, unit: &Value, base: &[Tok], argv: &[Tok], expected: String, r: &Outcome) -> Violation {
    let mut sig = BTreeMap::new();
    sig.insert("family".to_string(), family.to_string());
    sig.insert("inserted".to_string(), what.to_string());
    sig.insert("observed".to_string(), r.class().to_string());
    Violation { property: "C05".into(), rule: rule.into(), sig, unit: unit.clone(), case: json!({"base": base, "argv": argv, "what": what}), expected, observed: r.brief(), size: argv.len() * 1000 + argv.iter().map(|t| t.0.len()).sum::<usize>() }
}

fn insert_at(argv: &[Tok], pos: usize, ins: &[Tok]) -> Vec<Tok> {
    let mut v = argv[..pos].to_vec();
    v.extend_from_slice(ins);
    v.extend_from_slice(&argv[pos..]);
    v
}

pub fn check_accepted(unit: &Value, u: &Unit, p: &bpaf::OptionParser<Val>, t: &Table, argv: &[Tok], val: &Val, only: Option<&str>, ctx: &mut Ctx) {
    let dd = argv.iter().position(|x| x.0 == b"--").unwrap_or(argv.len());
    let seg = segment(t, argv);
    // (a) ledger
    if only.is_none() || only == Some("ledger") {
        if let Some(seg) = &seg {
            if !seg.rest_is_cmd && !u.no_ledger {
                let mut expected: Vec<Vec<u8>> = vec![];
                for b in &seg.blocks {
                    if b.ty == Ty::U32 {
                        continue;
                    }
                    if let Some(v) = &b.value {
                        expected.push(v.0.to_ascii_lowercase());
                    }
                }
                for tk in argv.iter().skip(seg.fixed_from + 1) {
                    expected.push(tk.0.to_ascii_lowercase());
                }
                let mut leaves = vec![];
                val.leaves(&mut leaves);
                let mut got: Vec<Vec<u8>> = leaves.into_iter().filter(|l| !MARKERS.iter().any(|m| l.0 == m.as_bytes())).map(|l| l.0.to_ascii_lowercase()).collect();
                expected.sort();
                got.sort();
                ctx.count("ledger-checked");
                if expected != got {
                    let r = Outcome::Value(val.clone());
                    ctx.violation(viol("ledger-no-item-dropped-or-delivered-twice", &u.family, "none", unit, argv, argv, format!("value leaves {:?}", expected.iter().map(|x| Tok(x.clone()).enc()).collect::<Vec<_>>()), &r));
                }
            }
        }
    }
    // (a') word ledger for groups inside groups: every plain word of the line is a value leaf of
    // the result, once
    if u.family == "loose-group-in-group" && (only.is_none() || only == Some("word-ledger")) {
        let mut expected: Vec<Vec<u8>> = argv.iter().filter(|t| !t.0.starts_with(b"-")).map(|t| t.0.clone()).collect();
        let mut leaves = vec![];
        val.leaves(&mut leaves);
        let mut got: Vec<Vec<u8>> = leaves.into_iter().map(|l| l.0.clone()).collect();
        expected.sort();
        got.sort();
        ctx.count("word-ledger-checked");
        if expected != got {
            let r = Outcome::Value(val.clone());
            ctx.violation(viol("ledger-no-item-dropped-or-delivered-twice", &u.family, "word-ledger", unit, argv, argv, format!("value leaves {:?}", expected.iter().map(|x| Tok(x.clone()).enc()).collect::<Vec<_>>()), &r));
        }
    }
    // (c) every item matters: without it the outcome differs
    if u.removal && (only.is_none() || only == Some("removed")) {
        for i in 0..argv.len() {
            if argv[i].0 == b"--" {
                continue;
            }
            let mut v2 = argv.to_vec();
            v2.remove(i);
            ctx.begin_case(|| json!({"argv": v2}));
            ctx.s.evaluations += 1;
            ctx.s.transitions += 1;
            ctx.count("removals-checked");
            let r = run(p, &v2);
            if r == Outcome::Value(val.clone()) {
                ctx.violation(viol("every-item-is-used", &u.family, "removed", unit, argv, &v2, format!("an outcome other than the one of the full line ({:?}): the removed item {} was used", val, argv[i].enc()), &r));
            }
        }
    }
    let loose = u.family.starts_with("loose");
    let seg = if loose { None } else { seg };
    // (b) foreign items
    let mut try_ins = |what: &str, ins: &[Tok], ctx: &mut Ctx| {
        if let Some(o) = only {
            if o != what {
                return;
            }
        }
        for pos in 0..=dd {
            let v2 = insert_at(argv, pos, ins);
            ctx.begin_case(|| json!({"argv": v2}));
            ctx.s.evaluations += 1;
            ctx.s.transitions += 1;
            let r = run(p, &v2);
            match &r {
                Outcome::Stderr(t) if !t.trim().is_empty() => {}
                _ => ctx.violation(viol("foreign-item-fails", &u.family, what, unit, argv, &v2, "stderr failure".into(), &r)),
            }
        }
    };
    try_ins("unknown-short", &toks(&["-z"]), ctx);
    try_ins("unknown-long", &toks(&["--zz"]), ctx);
    // `--flag=x` for every declared flag of the top level
    for (l, info) in &t.longs {
        if !info.is_arg {
            try_ins("flag-with-value", &[Tok::s(&format!("--{}=x", l))], ctx);
            try_ins("flag-with-empty-value", &[Tok::s(&format!("--{}=", l))], ctx);
        }
    }
    for (s, info) in &t.shorts {
        if !info.is_arg {
            try_ins("short-flag-with-value", &[Tok::s(&format!("-{}=x", s))], ctx);
            try_ins("short-flag-with-empty-value", &[Tok::s(&format!("-{}=", s))], ctx);
        }
    }
    if let Some(seg) = &seg {
        // second copy of a single-use option that is present
        for b in &seg.blocks {
            if b.kind != BlockKind::Word && !b.multi && b.fields.len() == 1 {
                let copy = argv[b.start..b.end].to_vec();
                try_ins(if b.kind == BlockKind::Arg { "second-copy-of-single-use-argument" } else { "second-copy-of-single-use-flag" }, &copy, ctx);
            }
        }
        // surplus word when the positional capacity is finite and full
        if t.cmds.is_empty() && !t.has_adjacent && t.positionals.iter().all(|(multi, in_alt)| !multi && !in_alt) {
            let words = seg.blocks.iter().filter(|b| b.kind == BlockKind::Word).count() + argv.len().saturating_sub(seg.fixed_from + 1);
            if words == t.positionals.len() {
                try_ins("surplus-word", &toks(&["q"]), ctx);
            }
        }
    }
    if ctx.wants_sample() && argv.len() >= 3 {
        ctx.sample(|| json!({"family": u.family, "accepted": argv, "value": format!("{:?}", val), "insertions": "every position x {-z, --zz, --flag=x, copies, surplus word}: all stderr"}));
    }
}

impl Check for C05 {
    fn id(&self) -> &'static str {
        "C05"
    }
    fn level(&self) -> &'static str {
        "exploration"
    }
    fn units(&self, tier: Tier, seed: u64) -> Vec<Value> {
        let mut out = vec![];
        let (n, len) = tier.pick((2, 4), (2, 5));
        for o in shapes(1, seed).into_iter().chain(shapes(n, seed)) {
            let nl = has_last(&o.p);
            out.push(serde_json::to_value(Unit { opts: o, len, family: "shapes".into(), alpha: vec![], no_ledger: nl, removal: !nl }).unwrap());
        }
        if tier == Tier::Thorough {
            for o in shapes(3, seed) {
                out.push(serde_json::to_value(Unit { opts: o, len: 4, family: "shapes3".into(), alpha: vec![], no_ledger: false, removal: true }).unwrap());
            }
        }
        let mut tails = vec![Tail::None];
        tails.extend(fam::pos_tails());
        tails.extend(fam::cmd_tails(seed, false, true));
        for l in fam::conventional(2, &tails, seed) {
            let alpha = alphabet(&l, AlphaStyle::Compact);
            let o = l.to_opts();
            let nl = has_last(&o.p);
            out.push(serde_json::to_value(Unit { opts: o, len: tier.pick(3, 4), family: "conventional".into(), alpha, no_ledger: nl, removal: !nl }).unwrap());
        }
        for (o, fam) in crate::checks::c19::group_shapes(seed) {
            let alpha = crate::checks::c19::group_alphabet(&o);
            out.push(serde_json::to_value(Unit { opts: o, len: tier.pick(4, 5), family: fam, alpha, no_ledger: true, removal: true }).unwrap());
        }
        // non-ASCII short names: clusters mixing them with declared and undeclared letters (byte
        // offsets and character counts differ inside the item)
        for tail in [Tail::None, fam::pos(&[PosKind::Many]), fam::pos(&[PosKind::Opt])] {
            let mk = |c: char, kind: Kind| Named { names: Names::short(c), kind, hidden: false, ty: Ty::Os, adjacent: false, guarded: false };
            let l = fam::leaf(vec![mk('é', Kind::Switch), mk('a', Kind::Switch), mk('ж', Kind::Count)], tail);
            let alpha = toks(&["-é", "-a", "-ж", "-éa", "-aж", "-éx", "-aéx", "-жжx", "-xé", "w", "--", "-z"]);
            out.push(serde_json::to_value(Unit { opts: l.to_opts(), len: tier.pick(4, 5), family: "loose-non-ascii-shorts".into(), alpha, no_ledger: true, removal: true }).unwrap());
        }
        // counted occurrences of a typed item, of a guarded positional and of a group: an
        // occurrence that cannot be counted is not dropped
        {
            let n = P::arg(Names::both('n', "num"), Ty::U32);
            let grp = P::Seq(vec![P::ReqFlag(Names::short('a')), P::ReqFlag(Names::short('b'))]);
            for (d, alpha) in [
                (P::Count(n.clone().bx()), toks(&["-n=1", "-n=x", "-n", "1", "-v"])),
                (P::Count(P::Guard(P::pos(Ty::U32).bx(), GuardK::Lt10).bx()), toks(&["1", "2", "50", "x", "-v"])),
                (P::Count(grp.bx()), toks(&["-a", "-b", "-v", "-ab"])),
            ] {
                out.push(serde_json::to_value(Unit { opts: Opts::new(P::Seq(vec![P::Switch(Names::short('v')), d])), len: tier.pick(4, 5), family: "loose-counted".into(), alpha, no_ledger: true, removal: true }).unwrap());
            }
        }
        // a command with a one-letter alias: the word that spells the alias, written right after
        // the name, is an ordinary item of the command (a positional value or a foreign word)
        {
            let pos = P::Pos { ty: Ty::Os, strict: Strict::Any, metavar: "FILE".into(), help: None };
            let cmd = |name: &str, alias: char, inner: Vec<P>, adjacent: bool| P::Cmd { name: name.into(), shorts: vec![alias], longs: vec![], inner: Box::new(Opts::new(P::Seq(inner))), adjacent, help: None };
            let v = P::Switch(Names::short('v'));
            let defs = vec![
                (P::Seq(vec![v.clone(), cmd("build", 'b', vec![P::Switch(Names::short('x')), pos.clone().many()], false)]), toks(&["build", "b", "x", "-v", "-x"])),
                (P::Seq(vec![v.clone(), cmd("build", 'b', vec![P::Switch(Names::short('x'))], false)]), toks(&["build", "b", "x", "-v", "-x"])),
                (P::Seq(vec![v.clone(), cmd("build", 'b', vec![P::Switch(Names::short('x')), pos.clone().opt()], false).opt()]), toks(&["build", "b", "x", "-v", "-x"])),
                (P::Seq(vec![P::Alt(vec![cmd("alpha", 'a', vec![P::Switch(Names::short('a'))], true), cmd("beta", 'x', vec![P::Switch(Names::short('b'))], true)]).many()]), toks(&["alpha", "a", "beta", "x", "-a", "-b"])),
            ];
            for (d, alpha) in defs {
                out.push(serde_json::to_value(Unit { opts: Opts::new(d), len: tier.pick(4, 5), family: "loose-command-alias".into(), alpha, no_ledger: true, removal: true }).unwrap());
            }
        }
        // an adjacent group inside an adjacent group: `--tag (-x P)..`
        {
            let pos = |m: &str| P::Pos { ty: Ty::Os, strict: Strict::Any, metavar: m.into(), help: None };
            let inner = P::Adj(vec![P::ReqFlag(Names::short('x')), pos("P")]).many();
            for outer_wrap in 0..3 {
                let g = P::Adj(vec![P::ReqFlag(Names::long("tag")), inner.clone()]);
                let g = match outer_wrap {
                    0 => g,
                    1 => g.opt(),
                    _ => g.many(),
                };
                out.push(serde_json::to_value(Unit { opts: Opts::new(P::Seq(vec![g.clone()])), len: tier.pick(5, 6), family: "loose-group-in-group".into(), alpha: toks(&["--tag", "-x", "1", "2"]), no_ledger: true, removal: true }).unwrap());
                // the same beside a switch of the surrounding level, which may stand between two
                // inner blocks (and ends the outer block there)
                out.push(serde_json::to_value(Unit { opts: Opts::new(P::Seq(vec![P::Switch(Names::short('f')), g])), len: tier.pick(6, 7), family: "loose-group-in-group".into(), alpha: toks(&["--tag", "-x", "1", "2", "-f"]), no_ledger: true, removal: true }).unwrap());
            }
        }
        for (o, alpha) in loose_groups() {
            out.push(serde_json::to_value(Unit { opts: o, len: tier.pick(4, 5), family: "loose-group".into(), alpha, no_ledger: true, removal: true }).unwrap());
        }
        out
    }
    fn run_unit(&self, unit: &Value, ctx: &mut Ctx) {
        let u: Unit = serde_json::from_value(unit.clone()).unwrap();
        let p = match build_checked(&u.opts) {
            Ok(p) => p,
            Err(_) => return,
        };
        let t = table(&u.opts);
        let alpha = if u.alpha.is_empty() { shape_alphabet(&u.opts) } else { u.alpha.clone() };
        tree(&alpha, u.len, &mut |argv| {
            ctx.s.states += 1;
            ctx.s.evaluations += 1;
            if let Outcome::Value(v) = run(&p, argv) {
                if !argv.is_empty() {
                    ctx.s.nontrivial += 1;
                }
                ctx.count("accepted-vectors");
                check_accepted(unit, &u, &p, &t, argv, &v, None, ctx);
            }
            true
        });
    }
    fn replay(&self, unit: &Value, case: &Value, ctx: &mut Ctx) {
        let u: Unit = serde_json::from_value(unit.clone()).unwrap();
        let base: Vec<Tok> = serde_json::from_value(case["base"].clone()).unwrap_or_default();
        let want: Vec<Tok> = serde_json::from_value(case["argv"].clone()).unwrap_or_default();
        let what = case["what"].as_str().unwrap_or("none").to_string();
        let p = match build_checked(&u.opts) {
            Ok(p) => p,
            Err(_) => return,
        };
        let t = table(&u.opts);
        ctx.s.evaluations += 1;
        match run(&p, &base) {
            Outcome::Value(v) => {
                let mut c2 = Ctx::new(ctx.tier, ctx.seed);
                check_accepted(unit, &u, &p, &t, &base, &v, Some(if what == "none" { if u.family == "loose-group-in-group" { "word-ledger" } else { "ledger" } } else { &what }), &mut c2);
                for (k, (n, v)) in c2.s.violations {
                    if serde_json::from_value::<Vec<Tok>>(v.case["argv"].clone()).map_or(false, |a| a == want) {
                        ctx.s.violations.insert(k, (n, v));
                    }
                }
            }
            _ => {}
        }
    }
    fn rule(&self) -> String {
        "definitions = shape family (12 field kinds, ordered tuples x 4 tails), conventional family, adjacent group / adjacent command shapes, loose (non-adjacent) optional / repeated groups whose later member gives up after the first consumed, non-ASCII short flags in clusters with declared and undeclared letters; accepted vectors are discovered by walking the whole token tree; for EVERY accepted vector: ledger (multiset of value leaves == multiset of value items of the line) and every single insertion at every position left of `--` of: -z, --zz, --flag=x / -f=x / --flag= / -f= for each declared flag, a second copy of each present single-use option, a surplus word when the positional capacity is finite and full -> each must be an stderr failure; and removal of any single item (other than `--`) must change the outcome (the item was used); evaluation = one run; non-trivial = accepted non-empty vector; plus commands with a one-letter alias (plain with positionals, optional, a repeated choice of adjacent ones) over lines where the alias word follows the name: every item of an accepted line is used".into()
    }
    fn bounds(&self, tier: Tier) -> Value {
        json!({"fields_per_level": tier.pick("<=2 + tail", "<=3 + tail"), "base_vector_length": tier.pick("4 (shapes, groups), 3 (conventional)", "5 / 4"), "insertions": "one item, every position"})
    }
}
