//! C11 — outcome classes map to streams and exit status, in a real process.
//! The harness binary re-executes itself with `BPAFMC_CHILD=<corpus id>`; the child builds the
//! definition and calls the real `OptionParser::run()`.  The parent predicts streams and status
//! from `run_inner` on the same arguments.
use crate::def::*;
use crate::explore::*;
use crate::run::*;
use crate::sup::*;
use serde::{Deserialize, Serialize};
use serde_json::{json, Value};
use std::collections::BTreeMap;
use std::os::unix::process::CommandExt;

pub struct C11;

#[derive(Serialize, Deserialize, Clone)]
pub struct Unit {
    pub id: usize,
    pub len: usize,
    pub arg0_variants: bool,
}

fn corpus_file() -> String {
    format!("{}/target/work/c11-corpus.json", root())
}

/// the corpus, cached on disk by the supervisor so that every spawned child only parses JSON
pub fn corpus() -> Vec<Opts> {
    if let Ok(s) = std::fs::read_to_string(corpus_file()) {
        if let Ok(v) = serde_json::from_str::<Vec<Opts>>(&s) {
            return v;
        }
    }
    compute_corpus()
}

/// conventional levels of the corpus (same indices as in `corpus()`): for these the reference
/// scanner predicts the outcome class independently of the implementation
pub fn corpus_levels() -> Vec<(usize, crate::conv::Level)> {
    let mut out = vec![];
    let seed = 0;
    let mut tails = vec![crate::conv::Tail::None];
    tails.extend(crate::fam::pos_tails().into_iter().take(3));
    tails.extend(crate::fam::cmd_tails(seed, true, true).into_iter().take(6));
    let mut k = 0;
    for (i, l) in crate::fam::conventional(2, &tails, seed).into_iter().enumerate() {
        if i % 37 == 0 {
            let mut l = l;
            if i % 2 == 0 {
                l.version = Some("3.1.4".into());
            }
            if k % 3 == 1 {
                set_usage_fallback(&mut l);
            }
            out.push((k, l));
            k += 1;
        }
    }
    out
}
fn set_usage_fallback(l: &mut crate::conv::Level) {
    l.usage_fallback = true;
    if let crate::conv::Tail::Cmds { cmds, .. } = &mut l.tail {
        for c in cmds {
            set_usage_fallback(&mut c.level);
        }
    }
}

/// the corpus: every mechanism once or twice
pub fn compute_corpus() -> Vec<Opts> {
    let mut out: Vec<Opts> = vec![];
    // conventional levels
    let seed = 0;
    let mut tails = vec![crate::conv::Tail::None];
    tails.extend(crate::fam::pos_tails().into_iter().take(3));
    tails.extend(crate::fam::cmd_tails(seed, true, true).into_iter().take(6));
    // (every third of them with fallback_to_usage on all levels)
    for (_, l) in corpus_levels() {
        out.push(l.to_opts());
    }
    // general shapes, adjacent groups, documented family (descr/header/footer, groups)
    out.extend(crate::shape::shapes(2, seed).into_iter().step_by(53));
    out.extend(crate::checks::c19::group_shapes(seed).into_iter().step_by(5).map(|x| x.0));
    out.extend(crate::docfam::doc_defs(2).into_iter().step_by(97));
    // env-backed, custom width, fallback_to_usage, custom help names
    let env_arg = P::Arg { names: Names::both('e', "env-arg").env("BPAFMC_C11").help("from the environment"), ty: Ty::U32, adjacent: false, metavar: "N".into() };
    out.push(Opts::new(P::Seq(vec![env_arg.clone().opt(), P::Switch(Names::short('s'))])));
    let mut w = Opts::new(P::Seq(vec![P::Switch(Names::both('w', "wide").help("a help text long enough to be wrapped when the maximum width is small, word after word after word")), P::pos(Ty::Os).many()]));
    w.cfg.max_width = Some(40);
    w.cfg.descr = Some(DocSpec::plain("narrow output"));
    out.push(w);
    let mut f = Opts::new(P::Seq(vec![P::arg(Names::long("req"), Ty::Os), P::cmd("cmd", Opts::new(P::Seq(vec![P::Switch(Names::short('x'))]))).opt()]));
    f.cfg.fallback_to_usage = true;
    f.cfg.version = Some(DocSpec::plain("0.0.1"));
    out.push(f);
    // multi-paragraph texts: the short and the full help differ, run() must print the one asked for
    let mut mp = Opts::new(P::Seq(vec![P::Switch(Names::both('m', "multi").help("first paragraph\n\nsecond paragraph only in the full help")), P::arg(Names::long("num"), Ty::U32).opt()]));
    mp.cfg.descr = Some(DocSpec::plain("short description\n\nlong description"));
    mp.cfg.header = Some(DocSpec::plain("header one\n\nheader two"));
    mp.cfg.footer = Some(DocSpec::plain("footer one\n\nfooter two"));
    out.push(mp);
    // fallback_to_usage where a line can be consumed completely and still fail
    let mut fu = Opts::new(P::Seq(vec![P::Switch(Names::short('a')), P::arg(Names::both('b', "beta"), Ty::Os)]));
    fu.cfg.fallback_to_usage = true;
    out.push(fu);
    let mut h = Opts::new(P::Seq(vec![P::Switch(Names::short('a')), P::Guard(P::arg(Names::long("num"), Ty::U32).bx(), GuardK::Lt10).opt()]));
    h.cfg.help_names = Some(Names { shorts: vec!['?'], longs: vec!["ayuda".into()], envs: vec![], help: None, long_first: false });
    out.push(h);
    // short names of two and three bytes (clusters are cut at character boundaries)
    out.push(Opts::new(P::Seq(vec![P::Switch(Names::short('é')), P::Switch(Names::short('€')), P::Switch(Names::short('v')), P::arg(Names::short('ß'), Ty::Os).opt()])));
    // a typed required argument in front of a command: `-l x build --help`, `build --help`
    out.push(Opts::new(P::Seq(vec![P::arg(Names::short('l'), Ty::U32), P::cmd("build", Opts::new(P::Seq(vec![P::pos(Ty::Os)])))])));
    // one short name declared as a flag at the top and as an argument inside a command
    out.push(Opts::new(P::Seq(vec![P::Switch(Names::short('v')), P::Switch(Names::short('f')), P::cmd("put", Opts::new(P::Seq(vec![P::arg(Names::short('f'), Ty::Os).opt()]))).opt()])));
    // chained adjacent commands: a command that fails on a foreign item is run again on a
    // narrower range of the line (nothing but the outcome may reach the streams)
    let eat = P::Cmd { name: "eat".into(), shorts: vec![], longs: vec![], inner: Box::new(Opts::new(P::Seq(vec![P::pos(Ty::Os).opt()]))), adjacent: true, help: None };
    let sleep = P::Cmd { name: "sleep".into(), shorts: vec![], longs: vec![], inner: Box::new(Opts::new(P::Seq(vec![P::arg(Names::long("time"), Ty::U32).opt()]))), adjacent: true, help: None };
    out.push(Opts::new(P::Seq(vec![P::Switch(Names::short('v')), P::Alt(vec![eat, sleep]).many()])));
    out
}

/// entry point of the child process
pub fn child_main(id: usize) -> ! {
    let c = corpus();
    let o = &c[id];
    let p = build_opts(o);
    let v = p.run();
    println!("BODY {:?}", v);
    std::process::exit(0)
}

fn alphabet_for(o: &Opts) -> Vec<Tok> {
    let mut a = crate::shape::shape_alphabet(o);
    a.retain(|t| t.0 != b"w");
    a.push(Tok(vec![0xff, b'w']));
    a.push(Tok::s(""));
    a.push(Tok::s("--help"));
    a.push(Tok::s("--version"));
    a.push(Tok::s("--bpaf-complete-rev=0"));
    // short names that take more than one byte: clusters of them, alone and next to an ASCII name
    fn shorts(v: &Value, out: &mut Vec<char>) {
        match v {
            Value::Object(m) => {
                for (k, x) in m {
                    if k == "shorts" {
                        if let Some(xs) = x.as_array() {
                            out.extend(xs.iter().filter_map(|c| c.as_str().and_then(|c| c.chars().next())));
                        }
                    } else {
                        shorts(x, out);
                    }
                }
            }
            Value::Array(xs) => xs.iter().for_each(|x| shorts(x, out)),
            _ => {}
        }
    }
    let mut names = vec![];
    shorts(&serde_json::to_value(&o.p).unwrap_or(Value::Null), &mut names);
    // clusters of the first two distinct ASCII short names (one of them may be declared twice,
    // as a flag and as an argument: the cluster is then ambiguous)
    {
        let mut distinct: Vec<char> = vec![];
        for c in names.iter().copied().filter(|c| c.is_ascii_alphabetic()) {
            if !distinct.contains(&c) {
                distinct.push(c);
            }
        }
        if distinct.len() >= 2 {
            let (x, y) = (distinct[0], distinct[1]);
            a.push(Tok::s(&format!("-{}{}", x, y)));
            a.push(Tok::s(&format!("-{}{}", y, x)));
            a.push(Tok::s(&format!("-{}{}{}", x, x, y)));
        }
    }
    // an unknown word and an unknown flag whose bytes outnumber their characters by far (the
    // message may suggest a similar name)
    a.push(Tok::s("удалить-всё"));
    a.push(Tok::s("--всё-сразу-и-быстро"));
    // items shaped like a short name with `=` whose name is a truncated multi-byte sequence
    for t in [&b"-\xe2=x"[..], b"-\xc3=", b"-\xf0\x9f=abc"] {
        a.push(Tok(t.to_vec()));
    }
    let ascii = names.iter().copied().find(|c| c.is_ascii());
    for c in names.iter().copied().filter(|c| !c.is_ascii()) {
        a.push(Tok::s(&format!("-{}{}", c, c)));
        if let Some(x) = ascii {
            a.push(Tok::s(&format!("-{}{}", c, x)));
            a.push(Tok::s(&format!("-{}{}{}", x, c, c)));
        }
    }
    // an inline non-UTF-8 value for the first long argument
    fn first_long_arg(p: &P) -> Option<String> {
        match p {
            P::Arg { names, .. } => names.longs.first().cloned(),
            P::Cmd { .. } => None,
            _ => {
                let mut r = None;
                p.children(&mut |c| {
                    if r.is_none() {
                        r = first_long_arg(c)
                    }
                });
                r
            }
        }
    }
    if let Some(l) = first_long_arg(&o.p) {
        let mut t = format!("--{}=", l).into_bytes();
        t.push(0xff);
        a.push(Tok(t));
    }
    a.sort();
    a.dedup();
    a
}

struct Observed {
    status: Option<i32>,
    stdout: Vec<u8>,
    stderr: Vec<u8>,
}

fn spawn(id: usize, arg0: &[u8], argv: &[Tok]) -> Option<Observed> {
    spawn_exe(&std::env::current_exe().ok()?, id, arg0, argv, false)
}

/// the harness built against bpaf with a colour feature (`./check build` / `./check C11` build them)
fn colour_exes() -> Vec<(&'static str, std::path::PathBuf)> {
    ["dull", "bright"].iter().map(|n| (*n, std::path::PathBuf::from(format!("{}/target/alt-{}/release/bpafmc", root(), n)))).filter(|(_, p)| p.exists()).collect()
}

fn spawn_exe(exe: &std::path::Path, id: usize, arg0: &[u8], argv: &[Tok], no_color: bool) -> Option<Observed> {
    let mut c = std::process::Command::new(exe);
    c.env_clear();
    c.env("BPAFMC_CHILD", id.to_string());
    c.env("BPAFMC_ROOT", root());
    if no_color {
        c.env("NO_COLOR", "1");
    }
    c.arg0(std::ffi::OsString::from(<std::ffi::OsString as std::os::unix::ffi::OsStringExt>::from_vec(arg0.to_vec())));
    for a in argv {
        c.arg(a.os());
    }
    let out = c.stdin(std::process::Stdio::null()).output().ok()?;
    Some(Observed { status: out.status.code(), stdout: out.stdout, stderr: out.stderr })
}

fn name_of(arg0: &[u8]) -> Option<String> {
    let os = <std::ffi::OsString as std::os::unix::ffi::OsStringExt>::from_vec(arg0.to_vec());
    let p = std::path::PathBuf::from(os);
    Some(p.file_name()?.to_str()?.to_owned())
}

fn viol(rule: &str, unit: &Value, id: usize, arg0: &[u8], argv: &[Tok], expected: String, observed: String) -> Violation {
    let mut sig = BTreeMap::new();
    sig.insert("clause".to_string(), rule.to_string());
    Violation { property: "C11".into(), rule: rule.into(), sig, unit: unit.clone(), case: json!({"id": id, "arg0": Tok(arg0.to_vec()), "argv": argv}), expected, observed: observed.chars().take(700).collect(), size: argv.len() * 100 + argv.iter().map(|t| t.0.len()).sum::<usize>() }
}

fn check_case(unit: &Value, id: usize, o: &Opts, level: Option<&crate::conv::Level>, p: &bpaf::OptionParser<Val>, arg0: &[u8], argv: &[Tok], ctx: &mut Ctx) {
    ctx.begin_case(|| json!({"id": id, "arg0": Tok(arg0.to_vec()), "argv": argv}));
    ctx.s.evaluations += 1;
    ctx.s.transitions += 1;
    // prediction
    let os = argv_os(argv);
    let name = name_of(arg0);
    let raw = catch(|| {
        let mut a = bpaf::Args::from(os.as_slice());
        if let Some(n) = &name {
            a = a.set_name(n);
        }
        p.run_inner(a)
    });
    let raw = match raw {
        Ok(r) => r,
        Err(e) => {
            // no prediction (panics as such are C04's business); what the property says about
            // the process still holds: it ends with status 0 or 1, never any other way
            if let Some(obs) = spawn(id, arg0, argv) {
                ctx.s.nontrivial += 1;
                if obs.status != Some(0) && obs.status != Some(1) {
                    ctx.violation(viol("every-outcome-is-one-of-the-classes", unit, id, arg0, argv, "exit status 0 (value, help, version, completion) or 1 (failure with a message)".into(), format!("run_inner panicked ({}); the process ended with status {:?}, stderr {:?}", e, obs.status, String::from_utf8_lossy(&obs.stderr))));
                }
            } else {
                ctx.s.skipped += 1;
            }
            return;
        }
    };
    // independent oracle for the conventional part of the corpus: the outcome class the
    // declared grammar prescribes (value / stderr failure / usage on stdout)
    if let Some(level) = level {
        let model = crate::conv::Model::new(level);
        let want = match model.run(argv, &crate::conv::Env::new()) {
            crate::conv::Out::Ok(_) => Some("value"),
            crate::conv::Out::Fail => Some("stderr"),
            crate::conv::Out::Usage => Some("stdout"),
            crate::conv::Out::Unspec(_) => None,
        };
        let got = match &raw {
            Ok(_) => "value",
            Err(bpaf::ParseFailure::Stdout(..)) => "stdout",
            Err(bpaf::ParseFailure::Completion(_)) => "completion",
            Err(bpaf::ParseFailure::Stderr(_)) => "stderr",
        };
        if let Some(w) = want {
            if w != got && !argv.iter().any(|t| t.0.starts_with(b"--bpaf-complete")) {
                ctx.violation(viol("outcome-class-follows-the-declared-grammar", unit, id, arg0, argv, format!("class {}", w), format!("class {}", got)));
                return;
            }
            ctx.count("classes-confirmed-by-the-reference-scanner");
        }
    }
    // help asked for as the last item of a line without separator wins over everything else on
    // the line (C10 judges every position; here the class decides stream and status)
    // (not where a short name is declared twice: an ambiguous cluster is reported while the line is
    // being split into items, before any parser - the help flag included - gets to look at it)
    let twice = {
        let t = serde_json::to_string(&o.p).unwrap_or_default();
        t.matches("\"shorts\":[\"f\"]").count() >= 2
    };
    if !twice && o.cfg.help_names.is_none() && argv.last().map_or(false, |t| t.0 == b"--help") && !argv.iter().any(|t| t.0 == b"--" || t.0.starts_with(b"--bpaf-complete")) {
        if !matches!(&raw, Err(bpaf::ParseFailure::Stdout(..))) {
            let got = match &raw {
                Ok(_) => "value",
                Err(bpaf::ParseFailure::Completion(_)) => "completion",
                Err(bpaf::ParseFailure::Stderr(_)) => "stderr",
                _ => "stdout",
            };
            ctx.violation(viol("help-goes-to-stdout-with-status-0", unit, id, arg0, argv, "class stdout (the help text), exit status 0".into(), format!("class {}", got)));
            return;
        }
        ctx.count("trailing-help-requests-judged");
    }
    let width = o.cfg.max_width.unwrap_or(100);
    let (exp_status, exp_out, exp_err): (i32, Option<Vec<u8>>, Option<Vec<u8>>) = match &raw {
        Ok(v) => (0, Some(format!("BODY {:?}\n", v).into_bytes()), Some(vec![])),
        Err(bpaf::ParseFailure::Stdout(d, full)) => {
            // the public width rendering is the full form; short help at a custom width is
            // compared at the default width only
            let text = if width == 100 { Some(d.monochrome(*full)) } else if *full { Some(format!("{:w$}", d, w = width)) } else { None };
            (0, text.map(|t| format!("{}\n", t).into_bytes()), Some(vec![]))
        }
        Err(bpaf::ParseFailure::Completion(s)) => (0, Some(s.clone().into_bytes()), Some(vec![])),
        Err(bpaf::ParseFailure::Stderr(d)) => {
            let text = if width == 100 { d.monochrome(true) } else { format!("{:w$}", d, w = width) };
            (1, Some(vec![]), Some(format!("Error: {}\n", text).into_bytes()))
        }
    };
    let obs = match spawn(id, arg0, argv) {
        Some(o) => o,
        None => {
            ctx.s.skipped += 1;
            return;
        }
    };
    let class = match &raw {
        Ok(_) => "value",
        Err(bpaf::ParseFailure::Stdout(..)) => "stdout",
        Err(bpaf::ParseFailure::Completion(_)) => "completion",
        Err(bpaf::ParseFailure::Stderr(_)) => "stderr",
    };
    ctx.count(&format!("class-{}", class));
    let show = |o: &Observed| format!("status {:?}, stdout {:?}, stderr {:?}", o.status, String::from_utf8_lossy(&o.stdout), String::from_utf8_lossy(&o.stderr));
    let mut bad: Option<&str> = None;
    if obs.status != Some(exp_status) {
        bad = Some("exit-status-matches-outcome-class");
    } else if exp_out.as_ref().map_or(false, |e| e != &obs.stdout) {
        bad = Some("stdout-matches-run_inner");
    } else if exp_err.as_ref().map_or(false, |e| e != &obs.stderr) {
        bad = Some("stderr-matches-run_inner");
    } else if class == "stderr" && obs.stderr.len() <= "Error: \n".len() {
        bad = Some("failure-has-a-message");
    } else if (class != "value") == obs.stdout.starts_with(b"BODY ") && class != "completion" && !(class == "stdout" && obs.stdout.starts_with(b"BODY")) {
        // program body reached iff a value was produced
        if class != "value" && obs.stdout.starts_with(b"BODY ") {
            bad = Some("body-reached-iff-value");
        }
    }
    // builds with a colour feature write the same plain text when the streams are not a terminal
    // (they never are here) and when NO_COLOR is set
    if bad.is_none() && argv.len() <= 1 && arg0 == b"app" && class != "completion" && !argv.iter().any(|t| t.0.starts_with(b"--bpaf-complete")) {
        for (name, exe) in colour_exes() {
            for no_color in [false, true] {
                if let Some(o2) = spawn_exe(&exe, id, arg0, argv, no_color) {
                    ctx.s.evaluations += 1;
                    ctx.count("colour-build-children");
                    if o2.status != Some(exp_status) || exp_out.as_ref().map_or(false, |e| e != &o2.stdout) || exp_err.as_ref().map_or(false, |e| e != &o2.stderr) {
                        ctx.violation(viol("colour-builds-write-plain-text-to-pipes", unit, id, arg0, argv, format!("the {}-color build (NO_COLOR {}) prints what run_inner predicts in monochrome: status {}, stdout {:?}, stderr {:?}", name, if no_color { "set" } else { "unset" }, exp_status, exp_out.as_ref().map(|b| String::from_utf8_lossy(b).into_owned()), exp_err.as_ref().map(|b| String::from_utf8_lossy(b).into_owned())), show(&o2)));
                        return;
                    }
                }
            }
        }
    }
    match bad {
        None => {
            ctx.s.nontrivial += 1;
            if ctx.wants_sample() && class == "stderr" {
                ctx.sample(|| json!({"corpus_id": id, "arg0": Tok(arg0.to_vec()), "argv": argv, "class": class, "child": show(&obs)}));
            }
        }
        Some(rule) => ctx.violation(viol(rule, unit, id, arg0, argv, format!("class {}: status {}, stdout {:?}, stderr {:?}", class, exp_status, exp_out.map(|b| String::from_utf8_lossy(&b).into_owned()), exp_err.map(|b| String::from_utf8_lossy(&b).into_owned())), show(&obs))),
    }
}

const ARG0S: [&[u8]; 12] = [b"app", b"/abs/path/tool", b"./rel/tool-name", b"name with space", b"bad\xffname", b"", b"my.tool", b"/opt/frob-1.2", b"app.exe", b".hidden", b"dir.d/", b"tr\xc3\xa4ger"];

impl Check for C11 {
    fn id(&self) -> &'static str {
        "C11"
    }
    fn level(&self) -> &'static str {
        "exploration"
    }
    fn units(&self, tier: Tier, _seed: u64) -> Vec<Value> {
        let n = corpus().len();
        (0..n).map(|id| serde_json::to_value(Unit { id, len: tier.pick(2, 3), arg0_variants: true }).unwrap()).collect()
    }
    fn run_unit(&self, unit: &Value, ctx: &mut Ctx) {
        let u: Unit = serde_json::from_value(unit.clone()).unwrap();
        let c = corpus();
        let o = &c[u.id];
        let p = match build_checked(o) {
            Ok(p) => p,
            Err(_) => return,
        };
        if catch(|| p.check_invariants(false)).is_err() {
            ctx.s.skipped += 1;
            return;
        }
        std::env::remove_var("BPAFMC_C11");
        let alpha = alphabet_for(o);
        let levels = corpus_levels();
        let level = levels.iter().find(|(k, _)| *k == u.id).map(|x| &x.1);
        tree(&alpha, u.len, &mut |argv| {
            ctx.s.states += 1;
            check_case(unit, u.id, o, level, &p, b"app", argv, ctx);
            if argv.len() <= 1 && u.arg0_variants {
                for a0 in ARG0S.iter().skip(1) {
                    check_case(unit, u.id, o, level, &p, a0, argv, ctx);
                }
            }
            true
        });
    }
    fn replay(&self, unit: &Value, case: &Value, ctx: &mut Ctx) {
        let id = case["id"].as_u64().unwrap_or(0) as usize;
        let arg0: Tok = serde_json::from_value(case["arg0"].clone()).unwrap_or_default();
        let argv: Vec<Tok> = serde_json::from_value(case["argv"].clone()).unwrap_or_default();
        let c = corpus();
        if let Some(o) = c.get(id) {
            if let Ok(p) = build_checked(o) {
                std::env::remove_var("BPAFMC_C11");
                let levels = corpus_levels();
                let level = levels.iter().find(|(k, _)| *k == id).map(|x| &x.1);
                check_case(unit, id, o, level, &p, &arg0.0, &argv, ctx);
            }
        }
    }
    fn rule(&self) -> String {
        "corpus = definitions sampled at fixed strides from the conventional family (with/without version), general shapes, adjacent groups, the documented family, plus env-backed, max_width(40), fallback_to_usage + version, custom help names; every definition is compiled into the harness executable and run through the real OptionParser::run() in a child process (execve with the argument vector as bytes, argv[0] set explicitly, empty environment); inputs = every vector of the token tree over the definition's names, words, an empty item, a non-UTF-8 word, --name=\\xff, --help, --version and the completion marker; argv[0] in {plain, absolute path, relative path, name with space, non-UTF-8, empty, names with dots / a version suffix / an extension / a leading dot / a trailing slash / non-ASCII} for vectors of length <= 1; oracle = (1) for the conventional part of the corpus the outcome class prescribed by the reference scanner (value / stderr failure / usage on stdout for a level with fallback_to_usage that got no items); (2) in-process run_inner with the name taken from argv[0]'s file name: value -> stdout 'BODY <debug>' / status 0 / empty stderr; stdout -> text + newline on stdout / 0 / empty stderr, no BODY; stderr -> 'Error: ' + text on stderr / status 1 / empty stdout / non-empty message; completion -> text on stdout / 0; plus, for vectors of length <= 1, the same child built with the dull-color and the bright-color feature (streams are pipes, NO_COLOR unset and set): identical plain bytes; evaluation = one spawned process; plus short names of two and three bytes with clusters of them and a chain of adjacent commands under many; a vector on which run_inner panics has no prediction but the child must still end with status 0 or 1; clusters of the first two ASCII short names (one corpus definition declares a name as a flag and as an argument: ambiguous clusters), items shaped like -<truncated multi-byte sequence>=value; (3) a line without separator whose last item is --help (default help names) is of class stdout whatever else is wrong on it".into()
    }
    fn bounds(&self, tier: Tier) -> Value {
        json!({"corpus": corpus().len(), "vector_length": tier.pick(2, 3)})
    }
    fn crash_is_violation(&self) -> bool {
        false
    }
    fn prepare(&self, _tier: Tier) -> Result<(), String> {
        let c = compute_corpus();
        std::fs::create_dir_all(format!("{}/target/work", root())).map_err(|e| e.to_string())?;
        let tmp = format!("{}.{}", corpus_file(), std::process::id());
        std::fs::write(&tmp, serde_json::to_string(&c).map_err(|e| e.to_string())?).map_err(|e| e.to_string())?;
        std::fs::rename(&tmp, corpus_file()).map_err(|e| e.to_string())
    }
}
