//! C15 — completion scripts for real shells are well-formed and inert.
#![cfg(feature = "full")]
use crate::checks::c14::parse_rows;
use crate::def::*;
use crate::run::*;
use crate::sup::*;
use serde::{Deserialize, Serialize};
use serde_json::{json, Value};
use std::collections::BTreeMap;

pub struct C15;

#[derive(Serialize, Deserialize, Clone)]
pub struct Unit {
    pub shape: usize,
    /// hostile string used for help / group / mask slots
    pub text: String,
}

pub const HOSTILE: [&str; 10] = ["plain", "it's", "$(touch CANARY)", "`touch CANARY`", ";touch CANARY", "a\"b", "é ü", "x'; touch CANARY; echo '", "*.(rs|toml)", "(a|b);touch CANARY"];
pub const TYPED: [&str; 16] = ["", "-", "--", "'", "\"", "$(touch CANARY)", "`touch CANARY`", ";touch CANARY", "a b", "a\nb", "\\", "*", "é", "--zz;x", "--beta=$(touch CANARY)", "--beta="];
pub const SHAPES: usize = 17;

const RAW_BASH: &str = "echo CALL RAWBASH";
const RAW_ZSH: &str = "echo CALL RAWZSH";

pub fn shape(k: usize, text: &str) -> Opts {
    let sw = P::Switch(Names::both('a', "alpha").help(text));
    let arg = |comp: Option<CompK>| {
        let a = P::Arg { names: Names::both('b', "beta").help(text), ty: Ty::Str, adjacent: false, metavar: "BETA".into() };
        match comp {
            Some(c) => P::Complete(a.bx(), c, Some(text.to_string())),
            None => a,
        }
    };
    let pos = P::Pos { ty: Ty::Str, strict: Strict::Any, metavar: "FILE".into(), help: Some(DocSpec::plain(text)) };
    let p = match k {
        0 => P::Seq(vec![sw, arg(Some(CompK::Echo2 { descr: true })).opt(), P::CompleteShell(pos.bx(), ShellK::File(None)).opt()]),
        1 => P::Seq(vec![P::GroupHelp(P::Seq(vec![sw, P::CompleteShell(arg(None).bx(), ShellK::File(Some(text.replace(' ', "_")))).opt()]).bx(), DocSpec::plain(text))]),
        2 => P::Seq(vec![sw, P::Complete(pos.bx(), CompK::EchoOnly, None).opt()]),
        3 => P::Seq(vec![sw, P::CompleteShell(pos.bx(), ShellK::Dir(None)).opt()]),
        4 => P::Seq(vec![P::CompleteShell(pos.bx(), ShellK::Dir(Some(text.replace(' ', "_")))).opt()]),
        5 => P::Seq(vec![sw, P::CompleteShell(pos.bx(), ShellK::Raw { bash: RAW_BASH.into(), zsh: RAW_ZSH.into(), fish: "RAWFISH".into(), elvish: "RAWELVISH".into() }).opt()]),
        6 => P::Seq(vec![sw, P::CompleteShell(pos.bx(), ShellK::Nothing).opt()]),
        7 => {
            let mut inner = Opts::new(P::Seq(vec![P::Switch(Names::both('x', "xray").help(text))]));
            inner.cfg.descr = Some(DocSpec::plain(text));
            P::Seq(vec![sw, P::Alt(vec![P::cmd("cmd", inner.clone()), P::cmd("cmx", inner)]).opt()])
        }
        8 => P::Seq(vec![sw, arg(Some(CompK::EchoOnly)).many(), P::Complete(pos.bx(), CompK::Fixed(vec![(text.to_string(), Some(text.to_string())), ("second".into(), None)]), Some(text.to_string())).opt()]),
        // two completers of the same kind with different payloads for the same word
        9 => {
            let j = P::CompleteShell(P::Pos { ty: Ty::Str, strict: Strict::Any, metavar: "JSON".into(), help: None }.bx(), ShellK::File(Some("*.json".into())));
            let t = P::CompleteShell(P::Pos { ty: Ty::Str, strict: Strict::Any, metavar: "TOML".into(), help: None }.bx(), ShellK::File(Some(text.replace(' ', "_"))));
            P::Seq(vec![sw, P::Alt(vec![P::Map(j.bx(), "j".into()), P::Map(t.bx(), "t".into())]).opt()])
        }
        10 => {
            let d1 = P::CompleteShell(P::Pos { ty: Ty::Str, strict: Strict::Any, metavar: "D1".into(), help: None }.bx(), ShellK::Dir(None));
            let d2 = P::CompleteShell(P::Pos { ty: Ty::Str, strict: Strict::Any, metavar: "D2".into(), help: None }.bx(), ShellK::Dir(Some("*.d".into())));
            P::Seq(vec![P::Alt(vec![P::Map(d1.bx(), "a".into()), P::Map(d2.bx(), "b".into())]).opt()])
        }
        // a dynamic completer whose description has two lines (static help is cut at the first
        // line by the library, a description returned by user code is not)
        11 => P::Seq(vec![sw, P::Complete(pos.bx(), CompK::Fixed(vec![("first".into(), Some(format!("{} one\nsecond line", text))), ("second".into(), None)]), None).opt()]),
        // names and values longer than the 24-column padding of the candidate list
        12 => P::Seq(vec![
            sw,
            P::Arg { names: Names::long("output-directory-override").help(text), ty: Ty::Str, adjacent: false, metavar: "DIRECTORY".into() }.opt(),
            P::Complete(pos.bx(), CompK::Fixed(vec![("a-dynamic-value-that-is-rather-long-indeed".into(), Some(text.to_string())), ("короткое-но-не-ascii-значение-кандидата".into(), Some("two".into()))]), None).opt(),
        ]),
        // a titled group holding a positional: its placeholder row belongs to the group in every
        // shell's listing, next to ordinary candidates outside of the group
        13 => P::Seq(vec![P::Switch(Names::both('z', "zeta").help("outside of the group")), P::GroupHelp(P::Seq(vec![sw, pos.opt()]).bx(), DocSpec::plain(text))]),
        // descriptions well beyond a hundred bytes, in scripts of two and three bytes per character
        14 => {
            let ru = "очень длинное описание параметра, которое заведомо не помещается в сто байт и продолжается дальше";
            let jp = "この説明はとても長くて、百バイトを大きく超えてもそのまま最後まで表示されなければなりません。終わり";
            P::Seq(vec![
                P::Switch(Names::both('a', "alpha").help(&format!("{} {}", text, ru))),
                P::Switch(Names::both('g', "gamma").help(&format!("{}{}", jp, text))),
                P::Complete(pos.bx(), CompK::Fixed(vec![("first".into(), Some(format!("x{} {}", jp, text))), ("second".into(), Some(format!("xy {}", ru)))]), None).opt(),
            ])
        }
        // two completers for the same word, one of them asks for nothing: the other one stays
        15 => {
            let u = P::CompleteShell(P::Pos { ty: Ty::Str, strict: Strict::Any, metavar: "URL".into(), help: None }.bx(), ShellK::Nothing);
            let f = P::CompleteShell(P::Pos { ty: Ty::Str, strict: Strict::Any, metavar: "PATH".into(), help: None }.bx(), ShellK::File(Some(text.replace(' ', "_"))));
            P::Seq(vec![sw, P::Alt(vec![P::Map(u.bx(), "u".into()), P::Map(f.bx(), "f".into())]).opt()])
        }
        // two different placeholders for the same word (a choice between two positionals): both
        // rows, in every shell
        16 => {
            let src = P::Pos { ty: Ty::Str, strict: Strict::Any, metavar: "SRC".into(), help: Some(DocSpec::plain(text)) };
            let url = P::Pos { ty: Ty::Str, strict: Strict::Any, metavar: "URL".into(), help: Some(DocSpec::plain("remote location")) };
            P::Seq(vec![sw, P::Alt(vec![P::Map(P::Seq(vec![P::Switch(Names::long("local")), src]).bx(), "l".into()), P::Map(P::Seq(vec![P::Switch(Names::long("remote")), url]).bx(), "r".into())])])
        }
        _ => unreachable!(),
    };
    Opts::new(p)
}

// ---------------------------------------------------------------------------------------
// POSIX shell lexing: single-quoted data vs bare text
// ---------------------------------------------------------------------------------------
#[derive(Debug, Clone, PartialEq, Eq)]
pub enum ShTok {
    Bare(String),
    Quoted(String),
}
/// Split a script into logical lines (newlines outside quotes) of tokens.  A quoted word is a
/// maximal concatenation of `'..'` segments and `\'`; anything else is bare text.
pub fn sh_lex(text: &str) -> Result<Vec<Vec<(ShTok, /* glued to previous */ bool)>>, String> {
    let cs: Vec<char> = text.chars().collect();
    let mut lines = vec![];
    let mut cur: Vec<(ShTok, bool)> = vec![];
    let mut i = 0;
    let mut glued = false;
    while i < cs.len() {
        let c = cs[i];
        if c == '\n' {
            lines.push(std::mem::take(&mut cur));
            glued = false;
            i += 1;
        } else if c == ' ' || c == '\t' {
            glued = false;
            i += 1;
        } else if c == '\'' {
            // quoted word
            let mut w = String::new();
            loop {
                // at an opening quote
                i += 1;
                loop {
                    if i >= cs.len() {
                        return Err("unterminated single quote".into());
                    }
                    if cs[i] == '\'' {
                        break;
                    }
                    w.push(cs[i]);
                    i += 1;
                }
                i += 1; // closing quote
                // `\''` continues the same word with a literal quote
                if i + 2 < cs.len() + 0 && cs[i] == '\\' && cs[i + 1] == '\'' && cs.get(i + 2) == Some(&'\'') {
                    w.push('\'');
                    i += 2;
                    continue;
                }
                break;
            }
            cur.push((ShTok::Quoted(w), glued));
            glued = true;
        } else {
            let mut w = String::new();
            while i < cs.len() && !matches!(cs[i], ' ' | '\t' | '\n' | '\'') {
                w.push(cs[i]);
                i += 1;
            }
            cur.push((ShTok::Bare(w), glued));
            glued = true;
        }
    }
    if !cur.is_empty() {
        lines.push(cur);
    }
    Ok(lines)
}

/// the directive skeleton: bare text verbatim, every quoted word as `Q`
fn skeleton(line: &[(ShTok, bool)]) -> String {
    let mut s = String::new();
    for (t, glued) in line {
        if !s.is_empty() && !glued {
            s.push(' ');
        }
        match t {
            ShTok::Bare(b) => s.push_str(b),
            ShTok::Quoted(_) => s.push('Q'),
        }
    }
    s
}
fn quoted(line: &[(ShTok, bool)]) -> Vec<String> {
    line.iter().filter_map(|(t, _)| if let ShTok::Quoted(q) = t { Some(q.clone()) } else { None }).collect()
}

const BASH_INIT: &str = "local cur prev words cword ; _init_completion || return ; _filedir";
fn bash_allowed(sk: &str) -> bool {
    matches!(sk, "" | "COMPREPLY+=(Q)" | "COMPREPLY+=( Q )" | "COMPREPLY+=( Q Q)")
        || sk == BASH_INIT
        || sk == format!("{} Q", BASH_INIT)
        || sk == format!("{} -d", BASH_INIT)
        || sk == format!("{} -d Q", BASH_INIT)
        || sk == RAW_BASH
}
fn zsh_allowed(sk: &str) -> bool {
    matches!(sk, "" | "compadd -- Q" | "compadd Q" | "local -a descr" | "descr=(Q)" | "compadd -l -d descr -V Q -X Q -- Q" | "compadd -l -V nosort -d descr -- Q" | "_files" | "_files -g Q" | "_files -/" | "_files -/ -g Q") || sk == RAW_ZSH
}

#[derive(Debug, Clone)]
struct Row {
    subst: String,
    pretty: String,
    group: String,
    help: String,
}
impl Row {
    fn display(&self) -> String {
        if !self.help.is_empty() && self.subst.is_empty() {
            format!("{}: {}", self.pretty, self.help)
        } else if !self.help.is_empty() {
            format!("{:24} -- {}", self.pretty, self.help)
        } else {
            self.pretty.clone()
        }
    }
}

/// what revision 0 computed for the line
struct Expected {
    echo: Option<String>,
    /// a single candidate printed without its columns
    single: Option<String>,
    rows: Vec<Row>,
    ops: Vec<String>,
}
fn expected_from_rev0(text: &str) -> Expected {
    let mut e = Expected { echo: None, single: None, rows: vec![], ops: vec![] };
    if !text.contains('\t') {
        if let Some(t) = text.strip_suffix('\n') {
            // either the echo of the typed word, or only shell completers (blank line + ops)
            if t.starts_with('\n') || t.contains("\nFile") || t.contains("\nDir") || t.contains("\nRaw") || t.contains("\nNothing") {
                for l in t.lines().filter(|l| !l.is_empty()) {
                    e.ops.push(l.to_string());
                }
            } else {
                e.echo = Some(t.to_string());
            }
        } else {
            e.single = Some(text.to_string());
        }
        return e;
    }
    let mut in_ops = false;
    // rows may contain newlines inside values; split on the blank line separating rows and ops
    let (rows_part, ops_part) = match text.rfind("\n\n") {
        Some(i) => (&text[..i + 1], &text[i + 2..]),
        None => (text, ""),
    };
    let _ = &mut in_ops;
    for line in rows_part.split_inclusive('\n') {
        let line = line.strip_suffix('\n').unwrap_or(line);
        let cols: Vec<&str> = line.split('\t').collect();
        if cols.len() == 4 {
            e.rows.push(Row { subst: cols[0].into(), pretty: cols[1].into(), group: cols[2].into(), help: cols[3].into() });
        } else if let Some(last) = e.rows.last_mut() {
            // a value containing a line break: continuation of the previous row's columns
            last.help.push('\n');
            last.help.push_str(line);
        }
    }
    for l in ops_part.lines().filter(|l| !l.is_empty()) {
        e.ops.push(l.to_string());
    }
    e
}

fn viol(rule: &str, unit: &Value, shell: &str, named: bool, argv: &[Tok], expected: String, observed: &str) -> Violation {
    let mut sig = BTreeMap::new();
    sig.insert("shell".to_string(), shell.to_string());
    sig.insert("clause".to_string(), rule.to_string());
    let d: String = expected.chars().map(|c| if c.is_ascii_digit() { '#' } else { c }).take(40).collect();
    sig.insert("detail".to_string(), d);
    Violation { property: "C15".into(), rule: rule.into(), sig, unit: unit.clone(), case: json!({"argv": argv, "shell": shell, "named": named}), expected, observed: observed.chars().take(800).collect(), size: argv.iter().map(|t| t.0.len() + 5).sum::<usize>() }
}

fn rev_of(shell: &str) -> usize {
    match shell {
        "elvish" => 1,
        "zsh" => 7,
        "bash" => 8,
        _ => 9,
    }
}

/// expected data entries of the bash script, in order: Q words and shell completer calls
fn bash_expect(e: &Expected) -> (Vec<String>, Vec<String>) {
    let mut words = vec![];
    let mut calls = vec![];
    for op in &e.ops {
        if op.starts_with("File") {
            calls.push(format!("_filedir{}", mask_of(op).map(|m| format!(" {}", bashmask(&m))).unwrap_or_default()));
        } else if op.starts_with("Dir") {
            calls.push(format!("_filedir -d{}", mask_of(op).map(|m| format!(" {}", bashmask(&m))).unwrap_or_default()));
        } else if op.starts_with("Raw") {
            calls.push("RAWBASH".to_string());
        }
    }
    if let Some(ec) = &e.echo {
        words.push(ec.clone());
    } else if let Some(s) = &e.single {
        words.push(s.clone());
    } else if e.rows.len() == 1 {
        if e.rows[0].subst.is_empty() {
            words.push(e.rows[0].pretty.clone());
            words.push(String::new());
        } else {
            words.push(e.rows[0].subst.clone());
        }
    } else {
        let mut prev = String::new();
        for r in &e.rows {
            if !r.group.is_empty() && r.group != prev {
                prev = r.group.clone();
                words.push(r.group.clone());
            }
            words.push(r.display());
        }
    }
    (words, calls)
}
fn mask_of(op: &str) -> Option<String> {
    // Debug form: File { mask: Some("*.rs") }
    let i = op.find("Some(\"")?;
    let rest = &op[i + 6..];
    let j = rest.rfind("\")")?;
    // undo Debug escaping of the characters the hostile strings contain
    Some(rest[..j].replace("\\\"", "\"").replace("\\'", "'").replace("\\\\", "\\"))
}
fn bashmask(m: &str) -> String {
    let i = m.strip_prefix("*.").unwrap_or(m);
    if i.starts_with('(') {
        format!("@{}", i)
    } else {
        i.to_string()
    }
}

struct BashCase {
    text: String,
    words: Vec<String>,
    calls: Vec<String>,
    argv: Vec<Tok>,
    named: bool,
    safety_only: bool,
}

fn check_line(unit: &Value, p: &bpaf::OptionParser<Val>, argv: &[Tok], bash_cases: &mut Vec<BashCase>, only: Option<(&str, bool)>, ctx: &mut Ctx) {
    let r0 = match run_comp(p, argv, 0, Some("app")) {
        Outcome::Completion(t) => t,
        _ => {
            ctx.s.skipped += 1;
            return;
        }
    };
    let e = expected_from_rev0(&r0);
    let typed = argv.last().map(|t| t.lossy()).unwrap_or_default();
    // revision 0 is itself a line format: with a line break in the typed word its rows cannot be
    // read back reliably, so such lines are held to the quoting clause and to the real bash run
    // (no stderr, nothing executed) but not to the one-to-one correspondence; the fish / elvish
    // line protocols have no quoting at all and are not judged on them
    let multiline = typed.contains('\n');
    let _ = parse_rows(&r0, &typed);
    for shell in ["bash", "zsh", "fish", "elvish"] {
        for named in [true, false] {
            if let Some((s, n)) = only {
                if s != shell || n != named {
                    continue;
                }
            }
            ctx.begin_case(|| json!({"argv": argv, "shell": shell, "named": named}));
            ctx.s.evaluations += 1;
            ctx.s.transitions += 1;
            let text = match run_comp(p, argv, rev_of(shell), if named { Some("app") } else { None }) {
                Outcome::Completion(t) => t,
                o => {
                    ctx.violation(viol("completion-output", unit, shell, named, argv, "completion output".into(), &o.brief()));
                    continue;
                }
            };
            let mut ok = true;
            match shell {
                "bash" | "zsh" => {
                    let lines = match sh_lex(&text) {
                        Ok(l) => l,
                        Err(er) => {
                            ctx.violation(viol("well-formed-directives-with-quoted-data", unit, shell, named, argv, format!("lexes as shell words ({})", er), &text));
                            continue;
                        }
                    };
                    let mut words: Vec<String> = vec![];
                    let mut calls: Vec<String> = vec![];
                    for l in &lines {
                        let sk = skeleton(l);
                        let allowed = if shell == "bash" { bash_allowed(&sk) } else { zsh_allowed(&sk) };
                        if !allowed {
                            ok = false;
                            ctx.violation(viol("well-formed-directives-with-quoted-data", unit, shell, named, argv, "every line is one of the shell's directive shapes with all data single-quoted".to_string(), &format!("line skeleton {:?} in {:?}", sk, text)));
                            break;
                        }
                        let q = quoted(l);
                        if shell == "bash" {
                            if sk.starts_with("COMPREPLY") {
                                words.extend(q);
                            } else if sk.starts_with(BASH_INIT) {
                                let d = if sk.contains(" -d") { " -d" } else { "" };
                                calls.push(format!("_filedir{}{}", d, q.first().map(|m| format!(" {}", m)).unwrap_or_default()));
                            } else if sk == RAW_BASH {
                                calls.push("RAWBASH".into());
                            }
                        } else {
                            // zsh: data = descr entries + words after `--`; completer lines
                            if sk == "descr=(Q)" {
                                words.push(format!("D:{}", q[0]));
                            } else if sk == "compadd -- Q" || sk == "compadd -l -V nosort -d descr -- Q" {
                                words.push(format!("S:{}", q[0]));
                            } else if sk == "compadd -l -d descr -V Q -X Q -- Q" {
                                words.push(format!("G:{}", q[0]));
                                if q[0] != q[1] {
                                    ok = false;
                                    ctx.violation(viol("well-formed-directives-with-quoted-data", unit, shell, named, argv, "group name given to -V and -X alike".to_string(), &format!("{:?}", text)));
                                }
                                words.push(format!("S:{}", q[2]));
                            } else if sk == "compadd Q" {
                                // without `--` only the empty word is harmless: anything else
                                // could be read by compadd as one of its own options
                                if !q[0].is_empty() {
                                    ok = false;
                                    ctx.violation(viol("well-formed-directives-with-quoted-data", unit, shell, named, argv, "data words of compadd follow `--`".to_string(), &format!("{:?}", text)));
                                }
                                words.push(format!("S:{}", q[0]));
                            } else if sk.starts_with("_files") {
                                let d = if sk.contains("-/") { " -/" } else { "" };
                                calls.push(format!("_files{}{}", d, q.first().map(|m| format!(" -g {}", m)).unwrap_or_default()));
                            } else if sk == RAW_ZSH {
                                calls.push("RAWZSH".into());
                            }
                        }
                    }
                    if !ok {
                        continue;
                    }
                    if multiline {
                        if shell == "bash" && named {
                            bash_cases.push(BashCase { text: text.clone(), words: vec![], calls: vec![], argv: argv.to_vec(), named, safety_only: true });
                        }
                        ctx.count("multi-line-typed-words-held-to-quoting-and-safety-only");
                        ctx.s.nontrivial += 1;
                        continue;
                    }
                    // (b) one-to-one correspondence with what revision 0 computed
                    if shell == "bash" {
                        let (ew, ec) = bash_expect(&e);
                        if words != ew {
                            ok = false;
                            ctx.violation(viol("each-candidate-exactly-once", unit, shell, named, argv, format!("COMPREPLY entries {:?}", ew), &format!("{:?} from {:?}", words, text)));
                        }
                        if calls != ec {
                            ok = false;
                            ctx.violation(viol("each-shell-completer-exactly-once", unit, shell, named, argv, format!("completer calls {:?}", ec), &format!("{:?} from {:?}", calls, text)));
                        }
                        if ok && named {
                            bash_cases.push(BashCase { text: text.clone(), words: ew, calls: ec, argv: argv.to_vec(), named, safety_only: false });
                        }
                    } else {
                        let mut ew: Vec<String> = vec![];
                        if let Some(ec) = &e.echo {
                            ew.push(format!("S:{}", ec));
                        } else if let Some(s) = &e.single {
                            ew.push(format!("S:{}", s));
                        } else if e.rows.len() == 1 {
                            if e.rows[0].subst.is_empty() {
                                ew.push(format!("S:{}", e.rows[0].pretty));
                                ew.push("S:".to_string());
                            } else {
                                ew.push(format!("S:{}", e.rows[0].subst));
                            }
                        } else {
                            for r in &e.rows {
                                ew.push(format!("D:{}", r.display()));
                                if !r.group.is_empty() {
                                    ew.push(format!("G:{}", r.group));
                                }
                                ew.push(format!("S:{}", r.subst));
                            }
                        }
                        let mut ec: Vec<String> = vec![];
                        for op in &e.ops {
                            if op.starts_with("File") {
                                ec.push(format!("_files{}", mask_of(op).map(|m| format!(" -g {}", m)).unwrap_or_default()));
                            } else if op.starts_with("Dir") {
                                ec.push(format!("_files -/{}", mask_of(op).map(|m| format!(" -g {}", m)).unwrap_or_default()));
                            } else if op.starts_with("Raw") {
                                ec.push("RAWZSH".into());
                            }
                        }
                        if words != ew {
                            ok = false;
                            ctx.violation(viol("each-candidate-exactly-once", unit, shell, named, argv, format!("entries {:?}", ew), &format!("{:?} from {:?}", words, text)));
                        }
                        if calls != ec {
                            ok = false;
                            ctx.violation(viol("each-shell-completer-exactly-once", unit, shell, named, argv, format!("completer directives {:?}", ec), &format!("{:?} from {:?}", calls, text)));
                        }
                    }
                }
                _ => {
                    if multiline {
                        ctx.s.skipped += 1;
                        continue;
                    }
                    // fish / elvish: one candidate per line, substitution TAB description
                    let mut lines: Vec<&str> = text.split('\n').collect();
                    if lines.last() == Some(&"") {
                        lines.pop();
                    }
                    let mut exp: Vec<(String, Option<String>)> = vec![];
                    if let Some(ec) = &e.echo {
                        if shell == "fish" {
                            exp.push((ec.clone(), None));
                        }
                    } else if let Some(s) = &e.single {
                        exp.push((s.clone(), None));
                    } else {
                        let rows: Vec<&Row> = if shell == "fish" { e.rows.iter().rev().filter(|r| !r.subst.is_empty()).collect() } else { e.rows.iter().collect() };
                        for r in rows {
                            if shell == "elvish" && e.rows.len() == 1 {
                                exp.push((r.subst.clone(), None));
                            } else {
                                // a line format: only the first line of a description fits
                                let h = r.help.split('\n').next().unwrap_or("").to_string();
                                exp.push((r.subst.clone(), if h.is_empty() { None } else { Some(h) }));
                            }
                        }
                    }
                    let got: Vec<(String, Option<String>)> = lines
                        .iter()
                        .map(|l| match l.split_once('\t') {
                            Some((a, b)) => (a.to_string(), Some(b.to_string())),
                            None => (l.to_string(), None),
                        })
                        .collect();
                    // a single row's help is not shown by revision 0: compare substitutions only
                    let same = if e.single.is_some() { got.len() == 1 && got[0].0 == exp[0].0 } else { got == exp };
                    if !same {
                        ok = false;
                        ctx.violation(viol("each-candidate-exactly-once", unit, shell, named, argv, format!("lines {:?}", exp), &format!("{:?}", text)));
                    }
                    let wanted_ops = e.ops.iter().filter(|o| !o.starts_with("Nothing")).count();
                    if wanted_ops > 0 {
                        ok = false;
                        ctx.violation(viol("each-shell-completer-exactly-once", unit, shell, named, argv, format!("{} requested shell completer(s) present in the output", wanted_ops), &format!("{:?}", text)));
                    }
                }
            }
            if ok {
                ctx.s.nontrivial += 1;
            }
        }
    }
}

/// run the collected bash texts in a real bash, compare COMPREPLY / completer calls / side effects
fn run_bash(unit: &Value, cases: &[BashCase], ctx: &mut Ctx) {
    if cases.is_empty() {
        return;
    }
    let dir = format!("{}/target/work/c15/{}", root(), std::process::id());
    let _ = std::fs::remove_dir_all(&dir);
    let scratch = format!("{}/scratch", dir);
    if std::fs::create_dir_all(&scratch).is_err() {
        return;
    }
    for (i, c) in cases.iter().enumerate() {
        let _ = std::fs::write(format!("{}/case_{}.sh", dir, i), &c.text);
    }
    let driver = format!(
        r#"_init_completion() {{ return 0; }}
_filedir() {{ printf 'CALL _filedir'; for a in "$@"; do printf ' %s' "$a"; done; printf '\n'; }}
cd '{scratch}' || exit 3
for i in $(seq 0 {n}); do
  (
    COMPREPLY=()
    f() {{ source '{dir}'/case_$i.sh; }}
    f > '{dir}'/stdout_$i 2> '{dir}'/stderr_$i
    printf '%s\0' "${{COMPREPLY[@]}}" > '{dir}'/reply_$i
    printf '%s' "${{#COMPREPLY[@]}}" > '{dir}'/count_$i
  )
done
"#,
        scratch = scratch,
        dir = dir,
        n = cases.len() - 1
    );
    let _ = std::fs::write(format!("{}/driver.sh", dir), driver);
    let st = std::process::Command::new("/usr/bin/bash").arg("--noprofile").arg("--norc").arg(format!("{}/driver.sh", dir)).env_clear().env("PATH", "/usr/bin:/bin").stdin(std::process::Stdio::null()).stdout(std::process::Stdio::null()).stderr(std::process::Stdio::null()).status();
    if st.is_err() {
        return;
    }
    for (i, c) in cases.iter().enumerate() {
        ctx.s.evaluations += 1;
        let count: usize = std::fs::read_to_string(format!("{}/count_{}", dir, i)).ok().and_then(|s| s.parse().ok()).unwrap_or(usize::MAX);
        let reply = std::fs::read(format!("{}/reply_{}", dir, i)).unwrap_or_default();
        let mut got: Vec<String> = reply.split(|b| *b == 0).map(|b| String::from_utf8_lossy(b).into_owned()).collect();
        got.pop(); // trailing terminator
        if count == 0 {
            got.clear();
        }
        let stderr = std::fs::read_to_string(format!("{}/stderr_{}", dir, i)).unwrap_or_default();
        let stdout = std::fs::read_to_string(format!("{}/stdout_{}", dir, i)).unwrap_or_default();
        let calls: Vec<String> = stdout.lines().filter_map(|l| l.strip_prefix("CALL ")).map(|s| s.to_string()).collect();
        let canary = std::path::Path::new(&format!("{}/CANARY", scratch)).exists();
        let mut problem = None;
        if canary {
            problem = Some("typed or user text was executed (CANARY created)".to_string());
        } else if !stderr.trim().is_empty() {
            problem = Some(format!("bash reported: {}", stderr.trim()));
        } else if c.safety_only {
        } else if got != c.words {
            problem = Some(format!("COMPREPLY is {:?}", got));
        } else if calls != c.calls {
            problem = Some(format!("completer calls are {:?}", calls));
        }
        if canary {
            let _ = std::fs::remove_file(format!("{}/CANARY", scratch));
        }
        match problem {
            None => {
                ctx.count("bash-texts-sourced-in-real-bash");
                ctx.s.nontrivial += 1;
            }
            Some(pr) => ctx.violation(viol("sourcing-in-bash-only-adds-candidates", unit, "bash-real", c.named, &c.argv, format!("COMPREPLY {:?}, calls {:?}, no stderr, no side effects", c.words, c.calls), &format!("{} / script {:?}", pr, c.text))),
        }
    }
    let _ = std::fs::remove_dir_all(&dir);
}

fn lines_for(shape_k: usize) -> Vec<Vec<Tok>> {
    let mut pres: Vec<Vec<Tok>> = vec![vec![], toks(&["-a"]), toks(&["--beta"]), toks(&["--beta=v"])];
    if shape_k == 7 {
        pres.push(toks(&["cmd"]));
        pres.push(toks(&["-a", "cmd"]));
    }
    let mut out = vec![];
    for pre in pres {
        for t in TYPED {
            let mut v = pre.clone();
            v.push(Tok::s(t));
            out.push(v);
        }
        for t in ["--a", "--alpha", "-b", "c", "cm", "se", "f"] {
            let mut v = pre.clone();
            v.push(Tok::s(t));
            out.push(v);
        }
    }
    out
}

impl Check for C15 {
    fn id(&self) -> &'static str {
        "C15"
    }
    fn level(&self) -> &'static str {
        "exploration"
    }
    fn units(&self, _tier: Tier, _seed: u64) -> Vec<Value> {
        let mut out = vec![];
        for k in 0..SHAPES {
            for t in HOSTILE {
                out.push(serde_json::to_value(Unit { shape: k, text: t.to_string() }).unwrap());
            }
        }
        out
    }
    fn run_unit(&self, unit: &Value, ctx: &mut Ctx) {
        let u: Unit = serde_json::from_value(unit.clone()).unwrap();
        let p = match build_checked(&shape(u.shape, &u.text)) {
            Ok(p) => p,
            Err(_) => return,
        };
        let mut bash_cases = vec![];
        for argv in lines_for(u.shape) {
            ctx.s.states += 1;
            check_line(unit, &p, &argv, &mut bash_cases, None, ctx);
        }
        run_bash(unit, &bash_cases, ctx);
        if ctx.wants_sample() {
            if let Some(c) = bash_cases.iter().find(|c| c.words.len() >= 2) {
                ctx.sample(|| json!({"shape": u.shape, "text": u.text, "argv": c.argv, "bash_script": c.text, "COMPREPLY": c.words, "calls": c.calls}));
            }
        }
    }
    fn replay(&self, unit: &Value, case: &Value, ctx: &mut Ctx) {
        let u: Unit = serde_json::from_value(unit.clone()).unwrap();
        let argv: Vec<Tok> = serde_json::from_value(case["argv"].clone()).unwrap_or_default();
        let shell = case["shell"].as_str().unwrap_or("bash").to_string();
        let named = case["named"].as_bool().unwrap_or(true);
        if let Ok(p) = build_checked(&shape(u.shape, &u.text)) {
            ctx.s.evaluations += 1;
            let mut bash_cases = vec![];
            if shell == "bash-real" {
                check_line(unit, &p, &argv, &mut bash_cases, Some(("bash", true)), ctx);
                run_bash(unit, &bash_cases, ctx);
            } else {
                check_line(unit, &p, &argv, &mut bash_cases, Some((&shell, named)), ctx);
            }
        }
    }
    fn rule(&self) -> String {
        "definitions = 13 shapes (names and dynamic values longer than the 24-column padding of the candidate list; a dynamic completer returning a two-line description; two shell completers of the same kind with different masks alive for one word; switch + argument with echoing completer and group + positional with complete_shell File; group_help + File with mask; positional completer echoing the typed word; Dir; Dir with mask; Raw; Nothing; sub-commands with descriptions; fixed-list completer with descriptions) x 10 hostile strings in every help / group / description / mask slot (quotes, $(..), backticks, ;, double quote, non-ASCII, quote-breaking payload, multi-extension masks `*.(rs|toml)` and `(a|b);touch CANARY`); lines = {nothing, -a, --beta, --beta=v, cmd ..} + typed word from 23 words (empty, -, --, quotes, $(touch CANARY), backticks, ;, space, line break, backslash, glob, non-ASCII, --zz;x, --beta=$(..), prefixes); revisions 1/7/8/9 with and without an application name; (a) bash/zsh text lexes into directives of the shell's allowed shapes with every data word single-quoted (independent POSIX quote lexer), fish/elvish one candidate per line; (b) one-to-one correspondence with the candidates and shell completers computed at revision 0 for the same line; (c) every bash text is sourced in /usr/bin/bash with stubbed _init_completion/_filedir inside a scratch directory: COMPREPLY and the recorded calls equal (b), no stderr, no CANARY file; zsh/fish/elvish are not installed: decided by (a)+(b) only; shapes 13 (titled group holding a positional beside an ordinary switch) and 14 (descriptions beyond 100 bytes in Cyrillic and Japanese); shapes 13-15: a titled group holding a positional beside a switch, descriptions beyond 100 bytes in multi-byte scripts, two completers for one word of which one is Nothing, two different placeholders for one word".into()
    }
    fn bounds(&self, _tier: Tier) -> Value {
        json!({"shapes": 13, "hostile_strings": 10, "lines_per_definition": "4-6 typed parts x 23 typed words", "shells": "bash (lexed + executed), zsh / fish / elvish (lexed)"})
    }
    fn assumptions(&self) -> Vec<String> {
        vec!["the candidate set of revision 0 is taken as given here (C14 judges it)".into(), "zsh, fish and elvish are not installed in this sandbox; their output is lexed, not executed".into()]
    }
}
