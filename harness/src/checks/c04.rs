//! C04 — running a parser is total, terminating and pure.
//! A shape grammar is enumerated up to a size bound (filtered by `check_invariants`), every
//! vector of a hostile byte-string alphabet up to a length bound is run in every mode (parse,
//! completion revisions 0/1/7/8/9 with and without an application name, completion marker),
//! documentation is generated in the three formats; nothing may panic, exit, abort or hang and
//! outcomes must not depend on what the object ran before.
use crate::def::*;
use crate::explore::*;
use crate::run::*;
use crate::sup::*;
use serde::{Deserialize, Serialize};
use serde_json::{json, Value};
use std::collections::BTreeMap;

pub struct C04;

#[derive(Serialize, Deserialize)]
pub struct Unit {
    pub opts: Opts,
    pub len: usize,
    pub family: String,
}

const LEAVES: usize = 9;
fn leaf(k: usize, slot: &mut usize) -> P {
    let pool = crate::fam::POOL;
    let mut nm = || {
        let (s, l) = pool[*slot % pool.len()];
        *slot += 1;
        Names::both(s, l)
    };
    match k {
        0 => P::Switch(nm()),
        1 => P::ReqFlag(nm()),
        2 => P::arg(nm(), Ty::Os),
        3 => P::arg(nm(), Ty::U32),
        4 => P::pos(Ty::Os),
        5 => P::Pos { ty: Ty::Str, strict: Strict::Strict, metavar: "SP".into(), help: Some(DocSpec::plain("strict one")) },
        6 => {
            // the command's own description is a styled multi-fragment text whose first
            // fragment is non-ASCII and contains a line break
            let mut inner = Opts::new(P::Seq(vec![P::Switch(Names::both('x', "xray"))]));
            inner.cfg.descr = Some(DocSpec(vec![(Sty::Text, "é\nx".into()), (Sty::Lit, "a".into()), (Sty::Em, "em".into())]));
            P::cmd("cmd", inner)
        }
        7 => P::Pure(Val::s("pure")),
        8 => P::Fail("failed on purpose".into()),
        _ => unreachable!(),
    }
}
const WRAPS: usize = 16;
fn wrap(w: usize, p: P) -> P {
    match w {
        0 => P::Optional(p.bx(), false),
        1 => P::Optional(p.bx(), true),
        2 => P::Many(p.bx(), false),
        3 => P::Some_(p.bx(), false),
        4 => P::Collect(p.bx(), true),
        5 => P::Count(p.bx()),
        6 => P::Last(p.bx()),
        7 => P::Fallback(p.bx(), Val::s("DEF"), true),
        8 => P::FallbackWith(p.bx(), Err("fallback failed".into())),
        9 => P::Guard(p.bx(), GuardK::NotBad),
        10 => P::Parse(p.bx(), ParseK::NoX),
        11 => P::Hide(p.bx()),
        12 => P::HideUsage(p.bx()),
        // a title made of multi-byte characters only (character counts never are byte offsets)
        13 => P::GroupHelp(p.bx(), DocSpec(vec![(Sty::Text, "Настройки сети:\n".into()), (Sty::Em, "ネットワーク".into())])),
        14 => P::Complete(p.bx(), CompK::Echo2 { descr: true }, Some("grp".into())),
        15 => P::CompleteShell(p.bx(), ShellK::File(Some("*.rs".into()))),
        _ => unreachable!(),
    }
}
fn bin(b: usize, x: P, y: P) -> P {
    match b {
        0 => P::Seq(vec![x, y]),
        1 => P::Alt(vec![x, y]),
        _ => P::Adj(vec![x, y]),
    }
}

fn cfg_variant(i: usize) -> OptsCfg {
    let mut c = OptsCfg::default();
    match i % 7 {
        0 => {}
        6 => {
            // every kind of white space other than the plain blank, leading / trailing / doubled
            c.descr = Some(DocSpec(vec![(Sty::Text, "\ttab\r\nx\u{a0}y\u{b}z\u{c}".into()), (Sty::Lit, " \u{2028}l\u{2003}m ".into()), (Sty::Text, "\r".into())]));
            c.header = Some(DocSpec::plain("\u{a0}hdr\t\t"));
            c.footer = Some(DocSpec::plain("a\u{85}b \n\t\n c"));
        }
        1 => {
            c.descr = Some(DocSpec::plain("does things\n\nlong description"));
            c.version = Some(DocSpec::plain("1.0"));
        }
        2 => {
            // styled multi fragment description with a non-ASCII first fragment and a line break
            c.descr = Some(DocSpec(vec![(Sty::Text, "é\nx".into()), (Sty::Lit, "lit".into()), (Sty::Em, "em".into())]));
            c.header = Some(DocSpec::plain("hdr"));
            c.footer = Some(DocSpec(vec![(Sty::Inv, "inv".into()), (Sty::Text, "\n tail".into())]));
        }
        3 => c.fallback_to_usage = true,
        4 => {
            c.help_names = Some(Names { shorts: vec!['?'], longs: vec!["ayuda".into()], envs: vec![], help: None, long_first: false });
            c.usage = Some(DocSpec::plain("custom usage"));
        }
        _ => {
            c.max_width = Some(20);
            c.version = Some(DocSpec(vec![(Sty::Lit, "v".into()), (Sty::Text, "日本".into())]));
        }
    }
    c
}

pub fn grammar(tier: Tier) -> Vec<(Opts, String)> {
    let mut out: Vec<(P, String)> = vec![];
    let wq: Vec<usize> = match tier {
        Tier::Quick => vec![0, 2, 3, 5, 7, 8, 11, 13, 14],
        Tier::Thorough => (0..WRAPS).collect(),
    };
    for k in 0..LEAVES {
        out.push((leaf(k, &mut 0), "leaf".into()));
        for w in 0..WRAPS {
            out.push((wrap(w, leaf(k, &mut 0)), "w1".into()));
            for w2 in &wq {
                out.push((wrap(*w2, wrap(w, leaf(k, &mut 0))), "w2".into()));
            }
        }
    }
    for b in 0..3 {
        for k1 in 0..LEAVES {
            for k2 in 0..LEAVES {
                let mut slot = 0;
                let x = leaf(k1, &mut slot);
                let y = leaf(k2, &mut slot);
                out.push((bin(b, x.clone(), y.clone()), "bin".into()));
                for w in &wq {
                    out.push((wrap(*w, bin(b, x.clone(), y.clone())), "w-bin".into()));
                    out.push((bin(b, wrap(*w, x.clone()), y.clone()), "bin-wl".into()));
                    out.push((bin(b, x.clone(), wrap(*w, y.clone())), "bin-wr".into()));
                }
                if tier == Tier::Thorough {
                    for k3 in [0usize, 2, 4] {
                        let z = leaf(k3, &mut slot.clone());
                        out.push((P::Seq(vec![bin(b, x.clone(), y.clone()), z.clone()]), "seq-bin".into()));
                        out.push((P::Adj(vec![x.clone(), y.clone(), z]), "adj3".into()));
                    }
                }
            }
        }
    }
    // titled groups at every nesting position around and inside a (plain / adjacent) block that
    // is followed by one more field: the help renderer pairs group start / end markers
    let t = |p: P, k: usize, title: &str| match k {
        0 => p,
        1 => P::GroupHelp(p.bx(), DocSpec::plain(title)),
        _ => P::WithGroupHelp(p.bx(), DocSpec::plain(title)),
    };
    for ta in 0..2 {
        for tb in 0..2 {
            for adjacent in [false, true] {
                for tblock in 0..3 {
                    for tc in 0..2 {
                        for ttop in 0..2 {
                            let a = t(P::ReqFlag(Names::short('a').help("activate the block")), ta, "inner title");
                            let b = t(P::Switch(Names::short('b').help("block detail")), tb, "detail title");
                            let block = if adjacent { P::Adj(vec![a, b]) } else { P::Seq(vec![a, b]) };
                            let block = t(block, tblock, "outer title");
                            let block = if adjacent { block.opt() } else { block };
                            let c = t(P::Switch(Names::short('c').help("unrelated switch")), tc, "other title");
                            let top = t(P::Seq(vec![block, c]), ttop, "top title");
                            out.push((P::Seq(vec![top, P::Switch(Names::short('d').help("plain switch"))]), "titled-nesting".into()));
                        }
                    }
                }
            }
        }
    }
    out.into_iter().enumerate().map(|(i, (p, f))| (Opts { p, cfg: cfg_variant(i) }, f)).collect()
}

/// adjacent groups inside adjacent groups, adjacent groups below adjacent commands
pub fn nested_adjacent() -> Vec<(Opts, Vec<&'static str>, usize)> {
    let pos = |m: &str| P::Pos { ty: Ty::Os, strict: Strict::Any, metavar: m.into(), help: None };
    let point = P::Adj(vec![P::ReqFlag(Names::long("point")), pos("X"), pos("Y")]);
    let point1 = P::Adj(vec![P::ReqFlag(Names::long("point")), pos("X")]);
    let rect_many = P::Adj(vec![P::ReqFlag(Names::long("rect")), point.clone().many()]).many();
    let rect_opt = P::Adj(vec![P::ReqFlag(Names::long("rect")), point1.clone().opt(), P::Switch(Names::short('w'))]).many();
    let v = P::Switch(Names::short('v'));
    let cmd_group = P::Cmd { name: "cmd".into(), shorts: vec![], longs: vec![], inner: Box::new(Opts::new(P::Seq(vec![point1.clone().many()]))), adjacent: true, help: None };
    let cmd_group2 = P::Cmd { name: "cmd".into(), shorts: vec![], longs: vec![], inner: Box::new(Opts::new(P::Seq(vec![P::Switch(Names::short('x')), point1.clone().opt()]))), adjacent: true, help: None };
    let any_tag = P::Adj(vec![P::AnyKv { metavar: "--tag=NAME".into(), help: None, dash: true }, pos("FILE")]).many();
    let any_kv = P::Adj(vec![P::AnyKv { metavar: "KEY=VAL".into(), help: None, dash: false }, pos("FILE")]).many();
    // an adjacent command inside an adjacent group, the group inside an adjacent command / beside
    // an optional argument of an enclosing adjacent group (scopes narrowed twice)
    let c_cmd = P::Cmd { name: "c".into(), shorts: vec![], longs: vec![], inner: Box::new(Opts::new(P::Seq(vec![P::ReqFlag(Names::short('b'))]))), adjacent: true, help: None };
    let a_c = P::Adj(vec![P::ReqFlag(Names::short('a')), c_cmd.clone()]);
    let in_cmd = P::Cmd { name: "cmd".into(), shorts: vec![], longs: vec![], inner: Box::new(Opts::new(P::Seq(vec![a_c.clone()]))), adjacent: true, help: None };
    let in_group = P::Adj(vec![P::arg(Names::short('x'), Ty::Os).opt(), a_c.clone()]);
    vec![
        (Opts::new(P::Seq(vec![in_cmd.clone()])), vec!["cmd", "-a", "c", "-b", "z"], 6),
        (Opts::new(P::Seq(vec![P::Switch(Names::short('v')), in_cmd.many()])), vec!["cmd", "-a", "c", "-b", "z", "-v"], 6),
        (Opts::new(P::Seq(vec![in_group.clone()])), vec!["-a", "c", "-b", "z", "-x"], 6),
        (Opts::new(P::Seq(vec![in_group.many(), pos("T").many()])), vec!["-a", "c", "-b", "z", "-x"], 6),
        (Opts::new(P::Seq(vec![any_tag.clone()])), vec!["--tag=a", "-Tb", "x", "--tag", "-z"], 5),
        (Opts::new(P::Seq(vec![P::Switch(Names::short('v')), any_tag])), vec!["--tag=a", "x", "-v", "--"], 5),
        (Opts::new(P::Seq(vec![any_kv])), vec!["k=v", "x", "=", "-z"], 5),
        (Opts::new(P::Seq(vec![rect_many.clone()])), vec!["--rect", "--point", "1", "-z"], 8),
        (Opts::new(P::Seq(vec![v.clone(), rect_many])), vec!["--rect", "--point", "1", "-v"], 8),
        (Opts::new(P::Seq(vec![v.clone(), rect_opt])), vec!["--rect", "--point", "1", "-v", "-w"], 6),
        (Opts::new(P::Seq(vec![v.clone(), cmd_group.many()])), vec!["cmd", "--point", "1", "-v"], 7),
        (Opts::new(P::Seq(vec![v, cmd_group2.many(), pos("T").opt()])), vec!["cmd", "--point", "1", "-v", "-x"], 6),
    ]
}

fn hostile(o: &Opts) -> Vec<Tok> {
    let mut a = toks(&["", "-", "--", "---", "=", "-=", "--=", "-a", "-a=", "--alpha=", "--help", "-h", "--version", "v", "bad", "x", "cmd", "-ab", "-?"]);
    a.push(Tok(vec![b'-', 0xff]));
    a.push(Tok(vec![b'-', b'-', 0xff, b'=', 0xff]));
    a.push(Tok(vec![0xff]));
    // white space other than the plain blank, in words, values and names (they end up in
    // messages that are wrapped for the terminal)
    for w in ["a\tb", "\t", "\r", "x\r", "\n", " ", "a b", "\u{a0}", "a\u{a0}b", "\u{b}x", "x\u{c}", "\u{85}", "\u{2028}y", "\u{2003}", "1\t2", "--alpha=a\tb", "--alpha=\r", "--al\tpha", "-a\t", "-\t", "--\u{a0}", "-a=\u{a0}"] {
        a.push(Tok::s(w));
    }
    // longer non-ASCII words and names: byte offsets run well ahead of character counts (the
    // "did you mean" distance table, column arithmetic)
    for w in ["日本語日本語", "ёёёёёёёё", "🦀🦀🦀🦀", "--быстро-быстро", "--日本語日本語=x", "-ёёёё", "cmд", "алфавит"] {
        a.push(Tok::s(w));
    }
    // single-dash and double-dash items whose name starts with a stray continuation byte, a
    // truncated 2-, 3- or 4-byte sequence or an invalid byte, bare / with `=` / with a body
    for lead in [&[0x80u8][..], &[0xC3], &[0xE4, 0xB8], &[0xF0, 0x9F], &[0xF0], &[0xFF], "é".as_bytes(), "🦀".as_bytes()] {
        for tail in [&b""[..], b"=", b"=x", b"a", b"a=x"] {
            for dashes in [&b"-"[..], b"--"] {
                let mut t = dashes.to_vec();
                t.extend_from_slice(lead);
                t.extend_from_slice(tail);
                a.push(Tok(t));
            }
        }
    }
    let mut cl = vec![b'-'];
    cl.extend(std::iter::repeat(b'a').take(200));
    a.push(Tok(cl));
    a.push(Tok(vec![b'w'; 200]));
    // declared names
    fn walk(p: &P, a: &mut Vec<Tok>) {
        match p {
            P::Switch(n) | P::ReqFlag(n) | P::Flag(n) => {
                if let Some(s) = n.shorts.first() {
                    a.push(Tok::s(&format!("-{}", s)));
                } else if let Some(l) = n.longs.first() {
                    a.push(Tok::s(&format!("--{}", l)));
                }
            }
            P::Arg { names, .. } => {
                if let Some(s) = names.shorts.first() {
                    a.push(Tok::s(&format!("-{}", s)));
                }
                if let Some(l) = names.longs.first() {
                    a.push(Tok::s(&format!("--{}=7", l)));
                }
            }
            P::Cmd { inner, .. } => walk(&inner.p, a),
            _ => p.children(&mut |c| walk(c, a)),
        }
    }
    walk(&o.p, &mut a);
    a.sort();
    a.dedup();
    a
}

/// the alphabet used for vectors of length 2: the sharpest hostile items and the declared names
fn hostile_small(o: &Opts) -> Vec<Tok> {
    let mut k = toks(&["", "-", "--", "=", "-a", "--alpha=", "--help", "v", "cmd"]);
    k.push(Tok(vec![b'-', 0xff]));
    k.push(Tok(vec![0xff]));
    k.push(Tok(vec![b'-', 0xC3, b'=', b'x']));
    k.push(Tok::s("1\t2"));
    k.extend(declared(o));
    k.sort();
    k.dedup();
    k
}

/// first spelling of every declared name
fn declared(o: &Opts) -> Vec<Tok> {
    let mut a = vec![];
    fn walk(p: &P, a: &mut Vec<Tok>) {
        match p {
            P::Switch(n) | P::ReqFlag(n) | P::Flag(n) => {
                if let Some(s) = n.shorts.first() {
                    a.push(Tok::s(&format!("-{}", s)));
                } else if let Some(l) = n.longs.first() {
                    a.push(Tok::s(&format!("--{}", l)));
                }
            }
            P::Arg { names, .. } => {
                if let Some(s) = names.shorts.first() {
                    a.push(Tok::s(&format!("-{}", s)));
                }
                if let Some(l) = names.longs.first() {
                    a.push(Tok::s(&format!("--{}=7", l)));
                }
            }
            P::Cmd { inner, .. } => walk(&inner.p, a),
            _ => p.children(&mut |c| walk(c, a)),
        }
    }
    walk(&o.p, &mut a);
    a
}

fn report(unit: &Value, family: &str, mode: &str, argv: &[Tok], what: &str, ctx: &mut Ctx) {
    let mut sig = BTreeMap::new();
    sig.insert("mode".to_string(), if mode.starts_with("comp") || mode.starts_with("marker") { "completion" } else if mode.starts_with("parse") { "parse" } else { mode }.to_string());
    // the cause signature: panic message (digits masked) and source file, not the line
    // number, which moves whenever the file is edited
    let (msg, at) = match what.rfind(" at ") {
        Some(i) => (&what[..i], &what[i + 4..]),
        None => (what, ""),
    };
    // path relative to the crate (the repository may live anywhere)
    let file = at.split(':').next().unwrap_or("");
    let file = match file.rfind("/src/") {
        Some(i) => file[i + 1..].to_string(),
        None => file.to_string(),
    };
    let masked: String = msg.chars().map(|c| if c.is_ascii_digit() { '#' } else { c }).take(90).collect();
    sig.insert("panic".to_string(), masked);
    sig.insert("file".to_string(), file);
    let _ = family;
    ctx.violation(Violation { property: "C04".into(), rule: "total".into(), sig, unit: unit.clone(), case: json!({"mode": mode, "argv": argv}), expected: "returns normally (value, stdout, stderr or completion)".into(), observed: what.to_string(), size: argv.len() * 1000 + argv.iter().map(|t| t.0.len()).sum::<usize>() });
}

#[cfg(feature = "full")]
fn docs(p: &bpaf::OptionParser<Val>, unit: &Value, family: &str, ctx: &mut Ctx) {
    for mode in ["markdown", "html", "manpage"] {
        // announced before it runs: a renderer that never returns is attributed to this case
        ctx.begin_case(|| json!({"mode": mode, "argv": []}));
        let r = match mode {
            "markdown" => catch(|| p.render_markdown("app")).map(|s| s.len()),
            "html" => catch(|| p.render_html("app")).map(|s| s.len()),
            _ => catch(|| p.render_manpage("app", bpaf::doc::Section::General, None, None, None)).map(|s| s.len()),
        };
        ctx.s.evaluations += 1;
        if let Err(e) = r {
            report(unit, family, mode, &[], &e, ctx);
        }
    }
}
#[cfg(feature = "full")]
fn doc_one(p: &bpaf::OptionParser<Val>, unit: &Value, family: &str, mode: &str, ctx: &mut Ctx) {
    let r = match mode {
        "markdown" => catch(|| p.render_markdown("app")).map(|s| s.len()),
        "html" => catch(|| p.render_html("app")).map(|s| s.len()),
        _ => catch(|| p.render_manpage("app", bpaf::doc::Section::General, None, None, None)).map(|s| s.len()),
    };
    if let Err(e) = r {
        report(unit, family, mode, &[], &e, ctx);
    }
}
#[cfg(not(feature = "full"))]
fn doc_one(_p: &bpaf::OptionParser<Val>, _unit: &Value, _family: &str, _mode: &str, _ctx: &mut Ctx) {}
#[cfg(not(feature = "full"))]
fn docs(_p: &bpaf::OptionParser<Val>, _unit: &Value, _family: &str, _ctx: &mut Ctx) {}

fn run_mode(p: &bpaf::OptionParser<Val>, mode: &str, argv: &[Tok]) -> Outcome {
    #[cfg(feature = "full")]
    {
        match mode {
            "parse" => run(p, argv),
            "parse-named" => run_named(p, argv, "app"),
            "comp0" => run_comp(p, argv, 0, None),
            "comp1" => run_comp(p, argv, 1, Some("app")),
            "comp7" => run_comp(p, argv, 7, Some("app")),
            "comp8" => run_comp(p, argv, 8, Some("app")),
            "comp9" => run_comp(p, argv, 9, Some("app")),
            "comp1-noname" => run_comp(p, argv, 1, None),
            "comp7-noname" => run_comp(p, argv, 7, None),
            "comp8-noname" => run_comp(p, argv, 8, None),
            "comp9-noname" => run_comp(p, argv, 9, None),
            m if m.starts_with("marker-first-") => {
                let mut v = vec![Tok::s(&format!("--bpaf-complete-rev={}", &m[13..]))];
                v.extend_from_slice(argv);
                run_named(p, &v, "app")
            }
            m if m.starts_with("marker-last-") => {
                let mut v = argv.to_vec();
                v.push(Tok::s(&format!("--bpaf-complete-rev={}", &m[12..])));
                run_named(p, &v, "app")
            }
            _ => unreachable!(),
        }
    }
    #[cfg(not(feature = "full"))]
    {
        let _ = mode;
        run(p, argv)
    }
}

const MODES: [&str; 11] = ["parse", "parse-named", "comp0", "comp1", "comp7", "comp8", "comp9", "comp1-noname", "comp7-noname", "comp8-noname", "comp9-noname"];
const MARKER_MODES: [&str; 6] = ["marker-first-0", "marker-first-8", "marker-first-9", "marker-last-0", "marker-last-7", "marker-last-1"];

const ENV_VAR: &str = "BPAFMC_C04_ENV";

impl Check for C04 {
    fn id(&self) -> &'static str {
        "C04"
    }
    fn level(&self) -> &'static str {
        "exploration"
    }
    fn units(&self, tier: Tier, seed: u64) -> Vec<Value> {
        let mut out: Vec<Value> = grammar(tier).into_iter().map(|(o, f)| serde_json::to_value(Unit { opts: o, len: tier.pick(2, 2), family: f }).unwrap()).collect();
        // nested adjacent structures, walked deeply over their own small alphabets
        for (o, alpha, len) in nested_adjacent() {
            out.push(serde_json::to_value(Unit { opts: o, len: tier.pick(len, len + 1), family: format!("nested-adjacent:{}", alpha.join(" ")) }).unwrap());
        }
        // items backed by an environment variable, with the variable set (`env-set:` units set
        // it for their own duration) and unset: every mode, including completion on an empty line
        for set in [false, true] {
            let n = |c: char, l: &str| Names::both(c, l).env(ENV_VAR);
            let items = vec![
                P::Switch(n('e', "env-switch")),
                P::ReqFlag(n('e', "env-req")),
                P::Flag(n('e', "env-flag")),
                P::arg(n('e', "env-arg"), Ty::Os),
                P::arg(n('e', "env-num"), Ty::U32).opt(),
                P::arg(n('e', "env-many"), Ty::Os).many(),
                P::Count(P::ReqFlag(n('e', "env-count")).bx()),
                P::Switch(Names::default().env(ENV_VAR)),
            ];
            for it in items {
                for tail in [vec![], vec![P::Switch(Names::short('a'))], vec![P::pos(Ty::Os).opt()], vec![P::cmd("cmd", Opts::new(P::Seq(vec![P::Switch(Names::short('x'))]))).opt()]] {
                    let mut fields = vec![it.clone()];
                    fields.extend(tail);
                    out.push(serde_json::to_value(Unit { opts: Opts::new(P::Seq(fields)), len: 2, family: if set { "env-set".into() } else { "env-unset".into() } }).unwrap());
                }
            }
        }
        // a help text of several styled fragments with multi-byte characters on its first line
        // (completion descriptions are cut from it), beside an argument and a command
        {
            let h = DocSpec(vec![(Sty::Text, "→ ".into()), (Sty::Lit, "größe".into()), (Sty::Text, " in bytes\nsecond line".into())]);
            let sw = P::Switch(Names { shorts: vec!['s'], longs: vec!["size".into()], envs: vec![], help: Some(h.clone()), long_first: false });
            let ar = P::Arg { names: Names { shorts: vec!['n'], longs: vec!["num".into()], envs: vec![], help: Some(h.clone()), long_first: false }, ty: Ty::Os, adjacent: false, metavar: "N".into() }.opt();
            let ps = P::Pos { ty: Ty::Os, strict: Strict::Any, metavar: "FILE".into(), help: Some(h.clone()) }.opt();
            let cm = P::Cmd { name: "cmd".into(), shorts: vec![], longs: vec![], inner: Box::new(Opts::new(P::Seq(vec![P::Switch(Names::short('x'))]))), adjacent: false, help: Some(h) }.opt();
            out.push(serde_json::to_value(Unit { opts: Opts::new(P::Seq(vec![sw.clone(), ar.clone(), ps])), len: 2, family: "styled-multibyte-help".into() }).unwrap());
            out.push(serde_json::to_value(Unit { opts: Opts::new(P::Seq(vec![sw, ar, cm])), len: 2, family: "styled-multibyte-help".into() }).unwrap());
        }
        // completers with edge values: empty / one-sided file masks, empty raw scripts, dynamic
        // completers returning empty values and empty or blank descriptions
        {
            let pos = || P::Pos { ty: Ty::Os, strict: Strict::Any, metavar: "FILE".into(), help: None };
            let arg = || P::arg(Names::both('n', "name"), Ty::Os);
            let mut kinds: Vec<ShellK> = vec![ShellK::Nothing, ShellK::Raw { bash: "".into(), zsh: "".into(), fish: "".into(), elvish: "".into() }];
            for m in ["", "*.", "*", "(", "*.(", ".", " ", "é"] {
                kinds.push(ShellK::File(Some(m.into())));
                kinds.push(ShellK::Dir(Some(m.into())));
            }
            for k in kinds {
                out.push(serde_json::to_value(Unit { opts: Opts::new(P::Seq(vec![P::Switch(Names::short('a')), P::CompleteShell(pos().bx(), k.clone()).opt()])), len: 2, family: "completer-edge-values".into() }).unwrap());
                out.push(serde_json::to_value(Unit { opts: Opts::new(P::Seq(vec![P::CompleteShell(arg().bx(), k).opt()])), len: 2, family: "completer-edge-values".into() }).unwrap());
            }
            let lists: Vec<Vec<(String, Option<String>)>> = vec![
                vec![("".into(), Some("".into()))],
                vec![("x".into(), Some("".into())), ("y".into(), None)],
                vec![("x".into(), Some("\n".into())), ("é".into(), Some(" ".into()))],
                vec![("".into(), None), ("".into(), None)],
                vec![("v".into(), Some("\nsecond".into()))],
            ];
            for l in lists {
                for grp in [None, Some("".to_string()), Some("grp".to_string())] {
                    out.push(serde_json::to_value(Unit { opts: Opts::new(P::Seq(vec![P::Switch(Names::short('a')), P::Complete(arg().bx(), CompK::Fixed(l.clone()), grp.clone()).opt()])), len: 2, family: "completer-edge-values".into() }).unwrap());
                    out.push(serde_json::to_value(Unit { opts: Opts::new(P::Seq(vec![P::Complete(pos().bx(), CompK::Fixed(l.clone()), grp).opt()])), len: 2, family: "completer-edge-values".into() }).unwrap());
                }
            }
        }
        // a choice whose losing branch leaves its item for a later parser that narrows the scope
        // (a sub-command / an adjacent group declaring the same name)
        {
            let choice = P::Alt(vec![P::Map(P::Switch(Names::short('a')).bx(), "a".into()), P::Map(P::Switch(Names::short('b')).bx(), "b".into())]);
            let sub = P::cmd("cmd", Opts::new(P::Seq(vec![P::Switch(Names::short('b'))]))).opt();
            let grp = P::Adj(vec![P::ReqFlag(Names::short('p')), P::Switch(Names::short('b')), P::arg(Names::short('n'), Ty::Os)]).opt();
            out.push(serde_json::to_value(Unit { opts: Opts::new(P::Seq(vec![choice.clone(), sub])), len: 4, family: "nested-adjacent:-a -b cmd v".into() }).unwrap());
            out.push(serde_json::to_value(Unit { opts: Opts::new(P::Seq(vec![choice, grp])), len: 5, family: "nested-adjacent:-a -b -p -n 3".into() }).unwrap());
        }
        // one short name declared both as a flag and as an argument (reported as ambiguous where a
        // block cannot be split): ASCII and multi-byte
        for c in ['a', 'é', '日'] {
            let flag = P::Switch(Names::short(c));
            let arg = P::arg(Names::short(c), Ty::Os).opt();
            let sub = P::cmd("cmd", Opts::new(P::Seq(vec![arg.clone()]))).opt();
            out.push(serde_json::to_value(Unit { opts: Opts::new(P::Seq(vec![flag.clone(), sub.clone()])), len: 2, family: format!("nested-adjacent:-{c} -{c}{c} -{c}=v cmd v", c = c) }).unwrap());
            // the ambiguous name behind names that are flags only, inside one block
            out.push(serde_json::to_value(Unit { opts: Opts::new(P::Seq(vec![P::Switch(Names::short('b')), flag.clone(), sub])), len: 3, family: format!("nested-adjacent:-b -{c} -b{c} -{c}b -bb{c}q -b{c}v cmd v", c = c) }).unwrap());
            out.push(serde_json::to_value(Unit { opts: Opts::new(P::Seq(vec![P::Alt(vec![P::Map(arg.bx(), "a".into()), P::Map(P::ReqFlag(Names::short(c)).bx(), "f".into())])])), len: 3, family: format!("nested-adjacent:-{c} -{c}{c} -{c}v v", c = c) }).unwrap());
        }
        // families of the other properties
        for (o, f) in crate::checks::c19::group_shapes(seed) {
            out.push(serde_json::to_value(Unit { opts: o, len: tier.pick(2, 3), family: f }).unwrap());
        }
        for o in crate::shape::shapes(2, seed).into_iter().step_by(tier.pick(4, 1)) {
            out.push(serde_json::to_value(Unit { opts: o, len: 2, family: "shapes".into() }).unwrap());
        }
        for l in crate::checks::c08::trees(seed).into_iter().step_by(tier.pick(8, 2)) {
            out.push(serde_json::to_value(Unit { opts: l.to_opts(), len: 2, family: "command-trees".into() }).unwrap());
        }
        out
    }
    fn run_unit(&self, unit: &Value, ctx: &mut Ctx) {
        let u: Unit = serde_json::from_value(unit.clone()).unwrap();
        // workers are single-threaded processes: the variable is theirs to set
        if u.family == "env-set" {
            std::env::set_var(ENV_VAR, "7");
        } else {
            std::env::remove_var(ENV_VAR);
        }
        let p = match build_checked(&u.opts) {
            Ok(p) => p,
            Err(e) => {
                report(unit, &u.family, "build", &[], &e, ctx);
                return;
            }
        };
        // documented filter
        if catch(|| p.check_invariants(false)).is_err() {
            ctx.count("definitions-rejected-by-check_invariants");
            ctx.s.skipped += 1;
            return;
        }
        ctx.count("definitions-accepted-by-check_invariants");
        docs(&p, unit, &u.family, ctx);
        if let Some(alpha) = u.family.strip_prefix("nested-adjacent:") {
            let alpha: Vec<Tok> = alpha.split(' ').map(Tok::s).collect();
            tree(&alpha, u.len, &mut |argv| {
                ctx.s.states += 1;
                for mode in ["parse", "comp0"] {
                    ctx.begin_case(|| json!({"mode": mode, "argv": argv}));
                    ctx.s.evaluations += 1;
                    if let Outcome::Panic(e) = run_mode(&p, mode, argv) {
                        report(unit, &u.family, mode, argv, &e, ctx);
                    } else if !argv.is_empty() {
                        ctx.s.nontrivial += 1;
                    }
                }
                true
            });
            return;
        }
        let alpha_full = hostile(&u.opts);
        let alpha_small = hostile_small(&u.opts);
        // purity: a second object built from the same definition is run in reverse order
        let p2 = build_checked(&u.opts).unwrap();
        let mut table: Vec<(Vec<Tok>, Outcome)> = vec![];
        let mut vectors: Vec<Vec<Tok>> = vec![vec![]];
        vectors.extend(alpha_full.iter().map(|t| vec![t.clone()]));
        tree(&alpha_small, u.len, &mut |argv| {
            if argv.len() >= 2 {
                vectors.push(argv.to_vec());
            }
            true
        });
        for argv in &vectors {
            let argv = &argv[..];
            ctx.s.states += 1;
            for mode in MODES {
                ctx.begin_case(|| json!({"mode": mode, "argv": argv}));
                ctx.s.evaluations += 1;
                let r = run_mode(&p, mode, argv);
                if let Outcome::Panic(e) = &r {
                    report(unit, &u.family, mode, argv, e, ctx);
                } else if !argv.is_empty() {
                    ctx.s.nontrivial += 1;
                }
                if mode == "parse" && argv.len() <= 1 {
                    table.push((argv.to_vec(), r));
                }
            }
            if argv.len() <= 1 {
                for mode in MARKER_MODES {
                    ctx.begin_case(|| json!({"mode": mode, "argv": argv}));
                    ctx.s.evaluations += 1;
                    if let Outcome::Panic(e) = run_mode(&p, mode, argv) {
                        report(unit, &u.family, mode, argv, &e, ctx);
                    }
                }
            }
        }
        // very long items, on their own
        for big in [{ let mut c = vec![b'-']; c.extend(std::iter::repeat(b'a').take(600)); Tok(c) }, Tok(vec![b'w'; 600]), { let mut c = b"--alpha=".to_vec(); c.extend(std::iter::repeat(b'7').take(600)); Tok(c) }] {
            for mode in ["parse", "comp0", "comp8"] {
                let argv = vec![big.clone()];
                ctx.begin_case(|| json!({"mode": mode, "argv": argv}));
                ctx.s.evaluations += 1;
                if let Outcome::Panic(e) = run_mode(&p, mode, &argv) {
                    report(unit, &u.family, mode, &argv, &e, ctx);
                }
            }
        }
        // histories: same object again (after everything above), other object in reverse order
        for (argv, r) in table.iter().rev() {
            ctx.s.evaluations += 2;
            ctx.s.transitions += 2;
            let again = run(&p, argv);
            let other = run(&p2, argv);
            if &again != r || &other != r {
                let mut sig = BTreeMap::new();
                sig.insert("clause".to_string(), "pure".to_string());
                ctx.violation(Violation { property: "C04".into(), rule: "pure".into(), sig, unit: unit.clone(), case: json!({"mode": "history", "argv": argv}), expected: r.brief(), observed: format!("again: {} / fresh object: {}", again.brief(), other.brief()), size: argv.len() * 1000 });
            }
        }
        if ctx.wants_sample() {
            ctx.sample(|| json!({"family": u.family, "definition": u.opts.p, "vectors": vectors.len(), "modes": MODES.len()}));
        }
    }
    fn replay(&self, unit: &Value, case: &Value, ctx: &mut Ctx) {
        let u: Unit = serde_json::from_value(unit.clone()).unwrap();
        if u.family == "env-set" {
            std::env::set_var(ENV_VAR, "7");
        } else {
            std::env::remove_var(ENV_VAR);
        }
        let argv: Vec<Tok> = serde_json::from_value(case["argv"].clone()).unwrap_or_default();
        let mode = case["mode"].as_str().unwrap_or("parse").to_string();
        ctx.s.evaluations += 1;
        let p = match build_checked(&u.opts) {
            Ok(p) => p,
            Err(e) => {
                report(unit, &u.family, "build", &[], &e, ctx);
                return;
            }
        };
        match mode.as_str() {
            "markdown" | "html" | "manpage" => doc_one(&p, unit, &u.family, &mode, ctx),
            "history" => {
                let a = run(&p, &argv);
                let b = run(&p, &argv);
                if a != b {
                    ctx.violation(Violation { property: "C04".into(), rule: "pure".into(), sig: BTreeMap::new(), unit: unit.clone(), case: case.clone(), expected: a.brief(), observed: b.brief(), size: 1 });
                }
            }
            "build" => {}
            m => {
                if let Outcome::Panic(e) = run_mode(&p, m, &argv) {
                    report(unit, &u.family, m, &argv, &e, ctx);
                }
            }
        }
    }
    fn rule(&self) -> String {
        "definitions = shape grammar: 9 leaves (switch, req_flag, OsString/u32 argument, positional, strict positional, command, pure, fail) under every wrapper (16: optional, optional+catch, many, some, collect+catch, count, last, fallback, failing fallback_with, guard, parse, hide, hide_usage, group_help with a styled non-ASCII title, complete, complete_shell), every wrapper pair (quick: 9 outer wrappers), every binary combination seq/alt/adjacent of two leaves bare, wrapped as a whole and with either side wrapped (thorough: also triples), with 7 rotating option-level configurations (styled multi-fragment non-ASCII descr/header/footer, texts made of every kind of Unicode white space, version, fallback_to_usage, custom help names + usage, max_width), plus titled groups (group_help / with_group_help) at every nesting position around and inside a plain or adjacent block followed by further fields (96 definitions), plus items backed by an environment variable (switch, req_flag, flag, argument, optional / repeated argument, counter, variable only) with the variable set and unset, beside a switch / positional / command, plus nested adjacent structures (group in group, group below an adjacent command) walked to 6-8 items over their own alphabets, group shapes, general shapes and command trees of the other checks; kept iff check_invariants returns; inputs = every single-item vector over the hostile alphabet and every vector of length <= 2 over its sharpest members plus the declared names (empty string, lone dashes, `=` forms, white space other than the blank (tab, CR, LF, VT, FF, NEL, NBSP, U+2003, U+2028) in words / values / names, long non-ASCII words and names (CJK, Cyrillic, emoji), invalid UTF-8 names and values (stray continuation bytes, truncated 2/3/4-byte sequences, bare / with = / with a body), 200-character cluster and word; 600-character cluster / word / value as single-item vectors, help/version tokens, declared names) in 11 modes (parse, parse with name, completion rev 0/1/7/8/9 with name, 1/7/8/9 without) + completion marker first/last; render_markdown/html/manpage once per definition; histories: every length<=1 vector re-run on the used object and on a second object in reverse order; violation = panic (caught), process death or hang (supervisor), or differing outcome; non-trivial = non-panicking run of a non-empty vector; plus completers with edge values (empty / one-sided / blank file and directory masks, empty raw scripts, Nothing; dynamic completers returning empty values and empty, blank or line-break-led descriptions, with no / an empty / a plain group) on positionals and arguments; plus an adjacent command inside an adjacent group inside a narrowed scope; plus the ambiguous short name behind flag-only names inside one block".into()
    }
    fn bounds(&self, tier: Tier) -> Value {
        json!({"ast_size": tier.pick("<=4 nodes + option-level config", "<=5"), "vector_length": 2, "modes": 17})
    }
    fn assumptions(&self) -> Vec<String> {
        vec!["`--bpaf-complete-style-*` and completion revisions other than 0/1/7/8/9 are documented process exits and are not generated".into()]
    }
}
