//! C02 — equivalent spellings mean the same thing; values arrive byte-exact.
//!
//! For every definition of the family and every *abstract sentence* (≤ 3 occurrences of
//! `(item, value bytes)`), every concrete spelling is generated and run; all of them must give
//! the outcome the abstract sentence denotes (computed from the occurrences directly, never by
//! tokenising text), `adjacent` arguments must reject exactly the two-item spellings.
use crate::conv::*;
use crate::def::*;
use crate::explore::*;
use crate::run::*;
use crate::sup::*;
use serde::{Deserialize, Serialize};
use serde_json::{json, Value};
use std::collections::BTreeMap;

pub struct C02;

#[derive(Serialize, Deserialize, Clone)]
pub struct Unit {
    pub level: Level,
    pub max_occ: usize,
    pub values: Vec<Tok>,
    /// metadata-only decoration of the argument item (must not change parsing):
    /// 0 none, 1 displayed fallback, 2 group_help, 3 with_group_help, 4 custom_usage,
    /// 5 hide_usage, 6 the whole level below a sub-command
    #[serde(default)]
    pub wrap: usize,
}

/// the definition with the decoration applied
pub fn build_unit(u: &Unit) -> Opts {
    let mut o = u.level.to_opts();
    let arg_ix = u.level.named.iter().position(|n| n.kind.is_arg());
    if let (P::Seq(fields), Some(ix)) = (&mut o.p, arg_ix) {
        let f = fields[ix].clone();
        fields[ix] = match u.wrap {
            1 => {
                // fallback(..).display_fallback(): same value, adds a `[default: ..]` suffix to the help
                fn disp(p: P) -> P {
                    match p {
                        P::Fallback(x, v, _) => P::Fallback(x, v, true),
                        P::Hide(x) => P::Hide(disp(*x).bx()),
                        other => other,
                    }
                }
                disp(f)
            }
            2 => P::GroupHelp(f.bx(), DocSpec::plain("a group")),
            3 => P::WithGroupHelp(f.bx(), DocSpec::plain("generated group")),
            4 => P::CustomUsage(f.bx(), DocSpec::plain("CUSTOM")),
            5 => P::HideUsage(f.bx()),
            7 => {
                // `.argument(..).adjacent().help(..)`: the help text attached last
                fn late_help(p: &mut P) {
                    match p {
                        P::Arg { names, metavar, .. } => {
                            *metavar = "ARG_".into();
                            names.help = Some(DocSpec::plain("help attached after the restriction"));
                        }
                        P::Optional(x, _) | P::Many(x, _) | P::Some_(x, _) | P::Fallback(x, _, _) | P::Hide(x) | P::Last(x) => late_help(x),
                        _ => {}
                    }
                }
                let mut f2 = f;
                late_help(&mut f2);
                f2
            }
            _ => f,
        };
        if u.wrap == 8 {
            // a sub-command whose one-letter alias is the argument's short name (typed as a bare
            // word, it has nothing to do with `-x`)
            let c = u.level.named[ix].names.shorts.first().copied().unwrap_or('q');
            fields.push(P::Cmd { name: "build".into(), shorts: vec![c], longs: vec![], inner: Box::new(Opts::new(P::Seq(vec![P::Switch(Names::long("inner"))]))), adjacent: false, help: None }.opt());
        }
    }
    if u.wrap == 6 {
        o = Opts::new(P::Seq(vec![P::cmd("cmd", o)]));
    }
    o
}
/// the line and the expected value as seen through the decoration
fn through(u_wrap: usize, argv: &[Tok], expected: Out) -> (Vec<Tok>, Out) {
    if u_wrap == 8 {
        // the optional sub-command is absent
        let e = match expected {
            Out::Ok(Val::T(mut fields)) => {
                fields.push(Val::No);
                Out::Ok(Val::T(fields))
            }
            o => o,
        };
        return (argv.to_vec(), e);
    }
    if u_wrap != 6 {
        return (argv.to_vec(), expected);
    }
    let mut v = vec![Tok::s("cmd")];
    v.extend_from_slice(argv);
    let e = match expected {
        Out::Ok(val) => Out::Ok(Val::T(vec![Val::Cmd("cmd".into(), Box::new(val))])),
        o => o,
    };
    (v, e)
}

#[derive(Clone, Debug, PartialEq, Eq, Serialize, Deserialize)]
pub enum Occ {
    Flag(usize),
    Arg(usize, Tok),
}

/// how one occurrence was written
#[derive(Clone, Debug, PartialEq, Eq, Hash, Serialize, Deserialize)]
pub enum Form {
    LongSep,
    LongEq,
    ShortSep,
    ShortEq,
    ShortAttached,
    FlagLong,
    FlagShort,
    /// member of a multi-letter cluster (flag)
    FlagInCluster,
    /// argument ending a cluster of >= 1 flags
    ClusterEndSep,
    ClusterEndEq,
    ClusterEndAttached,
}
impl Form {
    fn two_items(&self) -> bool {
        matches!(self, Form::LongSep | Form::ShortSep | Form::ClusterEndSep)
    }
}

fn detachable(v: &Tok) -> bool {
    // a detached value must tokenise as a plain word: anything not starting with a dash, or a lone dash
    let b = &v.0;
    !(b.len() >= 2 && b[0] == b'-') && b != b"--"
}
fn attachable(v: &Tok) -> bool {
    !v.0.is_empty() && v.0[0] != b'='
}

pub fn value_class(v: &Tok) -> &'static str {
    let b = &v.0;
    if b.is_empty() {
        return "empty";
    }
    let utf = std::str::from_utf8(b).is_ok();
    let eq = b.contains(&b'=');
    if !utf {
        return if eq { "non-utf8+eq" } else { "non-utf8" };
    }
    if b[0] == b'-' {
        return "leading-dash";
    }
    if eq {
        return "contains-eq";
    }
    if b.len() > 100 {
        return "long";
    }
    if !b.is_ascii() {
        return "non-ascii";
    }
    if b.contains(&b' ') {
        return "space";
    }
    "plain"
}

type Spelling = (Vec<Tok>, Vec<Form>);

fn cat(prefix: &str, v: &Tok) -> Tok {
    let mut b = prefix.as_bytes().to_vec();
    b.extend_from_slice(&v.0);
    Tok(b)
}

/// every concrete spelling of the sentence from position `i`
fn spell(level: &Level, sent: &[Occ], i: usize, acc: &mut Spelling, out: &mut Vec<Spelling>) {
    if i == sent.len() {
        out.push(acc.clone());
        return;
    }
    let (tl, fl) = (acc.0.len(), acc.1.len());
    let mut emit = |acc: &mut Spelling, toks: Vec<Tok>, forms: Vec<Form>, next: usize, out: &mut Vec<Spelling>| {
        acc.0.extend(toks);
        acc.1.extend(forms);
        spell(level, sent, next, acc, out);
        acc.0.truncate(tl);
        acc.1.truncate(fl);
    };
    match &sent[i] {
        Occ::Arg(ix, v) => {
            let n = &level.named[*ix].names;
            for l in &n.longs {
                emit(acc, vec![cat(&format!("--{}=", l), v)], vec![Form::LongEq], i + 1, out);
                if detachable(v) {
                    emit(acc, vec![Tok::s(&format!("--{}", l)), v.clone()], vec![Form::LongSep], i + 1, out);
                }
            }
            for s in &n.shorts {
                emit(acc, vec![cat(&format!("-{}=", s), v)], vec![Form::ShortEq], i + 1, out);
                if detachable(v) {
                    emit(acc, vec![Tok::s(&format!("-{}", s)), v.clone()], vec![Form::ShortSep], i + 1, out);
                }
                if attachable(v) {
                    emit(acc, vec![cat(&format!("-{}", s), v)], vec![Form::ShortAttached], i + 1, out);
                }
            }
        }
        Occ::Flag(ix) => {
            let n = &level.named[*ix].names;
            for l in &n.longs {
                emit(acc, vec![Tok::s(&format!("--{}", l))], vec![Form::FlagLong], i + 1, out);
            }
            if let Some(s0) = n.shorts.first() {
                // alone
                for s in &n.shorts {
                    emit(acc, vec![Tok::s(&format!("-{}", s))], vec![Form::FlagShort], i + 1, out);
                }
                // clusters: the run of following flag occurrences that have short names
                let mut cluster = format!("-{}", s0);
                let mut forms = vec![Form::FlagInCluster];
                let mut j = i + 1;
                loop {
                    // cluster so far may end in a short argument
                    if let Some(Occ::Arg(ax, v)) = sent.get(j) {
                        if let Some(sa) = level.named[*ax].names.shorts.first() {
                            if attachable(v) {
                                let mut f2 = forms.clone();
                                f2.push(Form::ClusterEndAttached);
                                emit(acc, vec![cat(&format!("{}{}", cluster, sa), v)], f2, j + 1, out);
                            }
                        }
                    }
                    match sent.get(j) {
                        Some(Occ::Flag(fx)) => match level.named[*fx].names.shorts.first() {
                            Some(s) => {
                                cluster.push(*s);
                                forms.push(Form::FlagInCluster);
                                j += 1;
                                emit(acc, vec![Tok::s(&cluster)], forms.clone(), j, out);
                            }
                            None => break,
                        },
                        _ => break,
                    }
                }
            }
        }
    }
}

/// what the abstract sentence denotes (no tokenising involved)
fn denote(level: &Level, sent: &[Occ]) -> Out {
    let mut evs = vec![];
    for o in sent {
        match o {
            Occ::Flag(ix) => {
                let n = &level.named[*ix].names;
                evs.push(match n.longs.first() {
                    Some(l) => Ev::Long(l.clone(), None),
                    None => Ev::Short(n.shorts[0], None),
                })
            }
            Occ::Arg(ix, v) => {
                let n = &level.named[*ix].names;
                evs.push(match n.longs.first() {
                    Some(l) => Ev::Long(l.clone(), Some(v.clone())),
                    None => Ev::Short(n.shorts[0], Some(v.clone())),
                })
            }
        }
    }
    parse_level(level, &[], &evs, &Env::new())
}

fn name_class(n: &Names) -> &'static str {
    if n.shorts.iter().any(|c| !c.is_ascii()) || n.longs.iter().any(|l| !l.is_ascii()) {
        "non-ascii"
    } else {
        "ascii"
    }
}

fn same(a: &Out, r: &Outcome) -> bool {
    match (a, r) {
        (Out::Ok(v), Outcome::Value(w)) => v == w,
        (Out::Fail, Outcome::Stderr(t)) => !t.trim().is_empty(),
        _ => false,
    }
}

fn check_sentence(level: &Level, wrap: usize, unit: &Value, p: &bpaf::OptionParser<Val>, sent: &[Occ], ctx: &mut Ctx) {
    let base = denote(level, sent);
    if let Out::Unspec(_) = base {
        ctx.s.skipped += 1;
        return;
    }
    let mut sp = vec![];
    spell(level, sent, 0, &mut (vec![], vec![]), &mut sp);
    if sp.len() > 1 {
        ctx.s.nontrivial += 1;
    }
    ctx.count_n("spellings", sp.len() as u64);
    let mut classes = std::collections::BTreeSet::new();
    for (argv, forms) in &sp {
        ctx.begin_case(|| json!({"sentence": sent, "argv": argv}));
        ctx.s.evaluations += 1;
        // expected: the denotation, except that an adjacent argument written as two items fails
        let mut expected = base.clone();
        let mut fi = 0;
        for o in sent {
            if let Occ::Arg(ix, _) = o {
                if level.named[*ix].adjacent && forms[fi].two_items() {
                    expected = Out::Fail;
                }
            }
            fi += 1;
        }
        let (argv_w, expected) = through(wrap, argv, expected);
        let r = run(p, &argv_w);
        classes.insert(r.class());
        if same(&expected, &r) {
            ctx.count(if matches!(expected, Out::Ok(_)) { "accepted" } else { "rejected" });
            if ctx.wants_sample() && sent.len() >= 2 && forms.iter().any(|f| matches!(f, Form::ClusterEndAttached | Form::ShortAttached)) {
                ctx.sample(|| json!({"sentence": sent, "argv": argv, "forms": forms, "outcome": r.brief()}));
            }
            continue;
        }
        // blame: which written unit (single occurrence or cluster) is responsible?
        // 1. canonicalising exactly one unit repairs the outcome; else
        // 2. a unit that fails on its own (everything else canonical); else "interaction".
        let groups = units_of(forms);
        let exp_for = |keep: &dyn Fn(usize) -> bool| -> Out {
            let mut e = base.clone();
            for (k2, o) in sent.iter().enumerate() {
                if let Occ::Arg(ix, _) = o {
                    if keep(k2) && level.named[*ix].adjacent && forms[k2].two_items() {
                        e = Out::Fail;
                    }
                }
            }
            e
        };
        let mut sig = BTreeMap::new();
        let mut blamed: Option<&Vec<usize>> = None;
        for g in &groups {
            let keep = |k: usize| !g.contains(&k);
            let argv2 = render(level, sent, forms, &keep);
            let (a2, e2) = through(wrap, &argv2, exp_for(&keep));
            if same(&e2, &run(p, &a2)) {
                blamed = Some(g);
                break;
            }
        }
        if blamed.is_none() {
            for g in &groups {
                let keep = |k: usize| g.contains(&k);
                let argv2 = render(level, sent, forms, &keep);
                let (a2, e2) = through(wrap, &argv2, exp_for(&keep));
                if !same(&e2, &run(p, &a2)) {
                    blamed = Some(g);
                    break;
                }
            }
        }
        let rule = match (&expected, &r) {
            (_, Outcome::Panic(_)) => "no-panic",
            (Out::Ok(_), Outcome::Value(_)) => "bytes-delivered-exactly",
            (Out::Ok(_), _) => "spelling-accepted-like-the-others",
            (Out::Fail, Outcome::Value(_)) => "adjacent-or-invalid-rejected",
            _ => "failure-on-stderr",
        };
        match blamed {
            Some(g) => {
                let k = *g.last().unwrap();
                sig.insert("form".to_string(), format!("{:?}", forms[k]));
                let (ix, vc) = match &sent[k] {
                    Occ::Flag(ix) => (*ix, "n/a"),
                    Occ::Arg(ix, v) => (*ix, value_class(v)),
                };
                let n = &level.named[ix];
                sig.insert("value".to_string(), vc.to_string());
                sig.insert("name".to_string(), name_class(&n.names).to_string());
                sig.insert("hidden".to_string(), n.hidden.to_string());
                sig.insert("ty".to_string(), format!("{:?}", n.ty));
                sig.insert("adjacent".to_string(), n.adjacent.to_string());
            }
            None => {
                sig.insert("form".to_string(), "interaction-between-occurrences".to_string());
                let mut fs: Vec<String> = forms.iter().map(|f| format!("{:?}", f)).collect();
                fs.sort();
                fs.dedup();
                sig.insert("forms".to_string(), fs.join("+"));
            }
        }
        sig.insert("observed".to_string(), r.class().to_string());
        if wrap != 0 {
            sig.insert("decoration".to_string(), wrap.to_string());
        }
        ctx.violation(Violation {
            property: "C02".into(),
            rule: rule.into(),
            sig,
            unit: unit.clone(),
            case: json!({"sentence": sent, "argv": argv, "forms": forms}),
            expected: format!("{:?} (what the sentence denotes; canonical spelling agrees)", expected),
            observed: r.brief(),
            size: sent.len() * 100000 + argv.iter().map(|t| t.0.len() + 10).sum::<usize>(),
        });
    }
    if classes.len() > 1 {
        ctx.count("sentences-with-mixed-outcome-classes");
    }
}

/// written units: a cluster (flags, optionally ending in an argument) or a single occurrence
fn units_of(forms: &[Form]) -> Vec<Vec<usize>> {
    let mut out = vec![];
    let mut i = 0;
    while i < forms.len() {
        if forms[i] == Form::FlagInCluster {
            let mut g = vec![];
            while i < forms.len() && forms[i] == Form::FlagInCluster {
                g.push(i);
                i += 1;
            }
            if i < forms.len() && matches!(forms[i], Form::ClusterEndSep | Form::ClusterEndEq | Form::ClusterEndAttached) {
                g.push(i);
                i += 1;
            }
            out.push(g);
        } else {
            out.push(vec![i]);
            i += 1;
        }
    }
    out
}

/// the vector with the units selected by `keep` as written (first name of each kind) and all
/// other occurrences in canonical form (`--long=v` / `--long`, or `-s=v` / `-s` without a long)
fn render(level: &Level, sent: &[Occ], forms: &[Form], keep: &dyn Fn(usize) -> bool) -> Vec<Tok> {
    let canon = |o: &Occ| -> Tok {
        match o {
            Occ::Flag(ix) => {
                let n = &level.named[*ix].names;
                match n.longs.first() {
                    Some(l) => Tok::s(&format!("--{}", l)),
                    None => Tok::s(&format!("-{}", n.shorts[0])),
                }
            }
            Occ::Arg(ix, v) => {
                let n = &level.named[*ix].names;
                match n.longs.first() {
                    Some(l) => cat(&format!("--{}=", l), v),
                    None => cat(&format!("-{}=", n.shorts[0]), v),
                }
            }
        }
    };
    let mut out: Vec<Tok> = vec![];
    for g in units_of(forms) {
        if !keep(g[0]) {
            for k in &g {
                out.push(canon(&sent[*k]));
            }
            continue;
        }
        if forms[g[0]] == Form::FlagInCluster {
            let mut cl = String::from("-");
            let mut tail: Vec<Tok> = vec![];
            let mut head: Option<Tok> = None;
            for k in &g {
                match (&sent[*k], &forms[*k]) {
                    (Occ::Flag(ix), _) => cl.push(level.named[*ix].names.shorts[0]),
                    (Occ::Arg(ax, v), f) => {
                        let sa = level.named[*ax].names.shorts[0];
                        match f {
                            Form::ClusterEndEq => head = Some(cat(&format!("{}{}=", cl, sa), v)),
                            Form::ClusterEndAttached => head = Some(cat(&format!("{}{}", cl, sa), v)),
                            _ => {
                                head = Some(Tok::s(&format!("{}{}", cl, sa)));
                                tail.push(v.clone());
                            }
                        }
                    }
                }
            }
            out.push(head.unwrap_or_else(|| Tok::s(&cl)));
            out.extend(tail);
            continue;
        }
        let k = g[0];
        match (&sent[k], &forms[k]) {
            (Occ::Flag(ix), Form::FlagLong) => out.push(Tok::s(&format!("--{}", level.named[*ix].names.longs[0]))),
            (Occ::Flag(ix), _) => out.push(Tok::s(&format!("-{}", level.named[*ix].names.shorts[0]))),
            (Occ::Arg(ix, v), f) => {
                let n = &level.named[*ix].names;
                match f {
                    Form::LongEq => out.push(cat(&format!("--{}=", n.longs[0]), v)),
                    Form::LongSep => {
                        out.push(Tok::s(&format!("--{}", n.longs[0])));
                        out.push(v.clone());
                    }
                    Form::ShortEq => out.push(cat(&format!("-{}=", n.shorts[0]), v)),
                    Form::ShortSep => {
                        out.push(Tok::s(&format!("-{}", n.shorts[0])));
                        out.push(v.clone());
                    }
                    _ => out.push(cat(&format!("-{}", n.shorts[0]), v)),
                }
            }
        }
    }
    out
}

fn sentences(level: &Level, values: &[Tok], max: usize) -> Vec<Vec<Occ>> {
    let mut atoms = vec![];
    for (i, n) in level.named.iter().enumerate() {
        if n.kind.is_arg() {
            for v in values {
                atoms.push(Occ::Arg(i, v.clone()));
            }
        } else {
            atoms.push(Occ::Flag(i));
        }
    }
    let mut out = vec![vec![]];
    let mut last: Vec<Vec<Occ>> = vec![vec![]];
    for _ in 0..max {
        let mut next = vec![];
        for s in &last {
            for a in &atoms {
                let mut s2 = s.clone();
                s2.push(a.clone());
                next.push(s2);
            }
        }
        out.extend(next.iter().cloned());
        last = next;
    }
    out
}

fn big() -> Tok {
    Tok(vec![b'q'; 300])
}

pub fn values_full() -> Vec<Tok> {
    let mut v = toks(&["", "v", "=", "a=b", "x y", "-v", "--w", "--", "é", "日本", "7"]);
    v.push(Tok(vec![0xff]));
    v.push(Tok(vec![b'f', 0xff, b'=']));
    v.push(big());
    v
}
pub fn values_small() -> Vec<Tok> {
    let mut v = toks(&["", "v", "a=b", "-v", "é"]);
    v.push(Tok(vec![0xff]));
    v
}

fn name_sets() -> Vec<[(Option<char>, Option<&'static str>); 3]> {
    vec![
        // (flag1, flag2, argument)
        [(Some('a'), Some("alpha")), (Some('b'), None), (Some('n'), Some("name"))],
        [(Some('ä'), Some("älpha")), (Some('b'), Some("b-b")), (Some('é'), Some("naïve"))],
        [(Some('a'), None), (Some('日'), Some("日本")), (Some('n'), None)],
        // four-byte characters as short names
        [(Some('a'), Some("alpha")), (Some('𝛼'), None), (Some('🦀'), Some("crab"))],
    ]
}

fn mk_names(x: (Option<char>, Option<&str>)) -> Names {
    match x {
        (Some(s), Some(l)) => Names::both(s, l),
        (Some(s), None) => Names::short(s),
        (None, Some(l)) => Names::long(l),
        _ => unreachable!(),
    }
}

// ------------------------------------------------------------------------------------------
// one name declared twice: an `adjacent`-restricted argument takes exactly the occurrences whose
// name and value share one item, whatever the other consumer of the name (a plain argument, or a
// switch - the documented `--pkg=NAME` / bare `--pkg` idiom) takes and wherever it is written
// ------------------------------------------------------------------------------------------
#[derive(Clone, Copy, Debug, Serialize, Deserialize)]
pub struct Dual {
    /// 0: (adjacent many, plain many); 1: (adjacent optional, switch); 2: (plain many, adjacent many)
    pub kind: usize,
    pub len: usize,
}

pub fn dual_opts(d: &Dual) -> Opts {
    let names = || Names::both('n', "name");
    let adj = P::Arg { names: names(), ty: Ty::Os, adjacent: true, metavar: "N".into() };
    let plain = P::Arg { names: names(), ty: Ty::Os, adjacent: false, metavar: "N".into() };
    let neutral = P::Switch(Names::short('v'));
    match d.kind {
        0 => Opts::new(P::Seq(vec![adj.many(), plain.many(), neutral])),
        1 => Opts::new(P::Seq(vec![adj.opt(), P::Switch(names()), neutral])),
        _ => Opts::new(P::Seq(vec![neutral, adj.many(), plain.many()])),
    }
}

const DUAL_ALPHA: [&str; 8] = ["--name=a", "-n=b", "-nc", "--name=", "--name", "-n", "x", "-v"];

fn dual_model(d: &Dual, argv: &[Tok]) -> Option<Val> {
    let mut joined = vec![];
    let mut split = vec![];
    let mut bare = 0;
    let mut v = 0;
    let mut i = 0;
    while i < argv.len() {
        let t = argv[i].utf8().unwrap();
        match t {
            "--name=a" => joined.push(Val::s("a")),
            "-n=b" => joined.push(Val::s("b")),
            "-nc" => joined.push(Val::s("c")),
            "--name=" => joined.push(Val::s("")),
            "-v" => v += 1,
            "--name" | "-n" => {
                if d.kind == 1 {
                    bare += 1;
                } else if argv.get(i + 1).map_or(false, |n| n.0 == b"x") {
                    split.push(Val::s("x"));
                    i += 1;
                } else {
                    return None;
                }
            }
            _ => return None, // a stray word
        }
        i += 1;
    }
    if v > 1 {
        return None;
    }
    let vb = Val::B(v == 1);
    match d.kind {
        0 => Some(Val::T(vec![Val::L(joined), Val::L(split), vb])),
        1 => {
            if joined.len() > 1 || bare > 1 {
                return None;
            }
            let a = match joined.pop() {
                Some(x) => Val::some(x),
                None => Val::No,
            };
            Some(Val::T(vec![a, Val::B(bare == 1), vb]))
        }
        _ => Some(Val::T(vec![vb, Val::L(joined), Val::L(split)])),
    }
}

fn run_dual(d: &Dual, unit: &Value, only: Option<&[Tok]>, ctx: &mut Ctx) {
    let p = match build_checked(&dual_opts(d)) {
        Ok(p) => p,
        Err(_) => return,
    };
    // `-nc` is ambiguous when `-n` is both a flag and an argument (reported as such): not part
    // of the idiom's alphabet
    let alpha: Vec<Tok> = DUAL_ALPHA.iter().filter(|s| !(d.kind == 1 && **s == "-nc")).map(|s| Tok::s(s)).collect();
    let mut one = |argv: &[Tok], ctx: &mut Ctx| {
        ctx.begin_case(|| json!({"argv": argv}));
        ctx.s.evaluations += 1;
        ctx.s.states += 1;
        let r = run(&p, argv);
        let m = dual_model(d, argv);
        let ok = match (&m, &r) {
            (Some(v), Outcome::Value(w)) => v == w,
            (None, Outcome::Stderr(t)) => !t.trim().is_empty(),
            _ => false,
        };
        if ok {
            if !argv.is_empty() {
                ctx.s.nontrivial += 1;
            }
            ctx.count("shared-name-vectors-judged");
            return;
        }
        let mut sig = BTreeMap::new();
        sig.insert("family".to_string(), format!("shared-name-{}", d.kind));
        sig.insert("observed".to_string(), r.class().to_string());
        ctx.violation(Violation { property: "C02".into(), rule: "adjacent-argument-takes-exactly-the-one-item-spellings".into(), sig, unit: unit.clone(), case: json!({"argv": argv}), expected: match &m { Some(v) => format!("value {:?}", v), None => "stderr failure".into() }, observed: r.brief(), size: argv.len() * 1000 });
    };
    if let Some(a) = only {
        one(a, ctx);
        return;
    }
    tree(&alpha, d.len, &mut |argv| {
        one(argv, ctx);
        true
    });
}

// ------------------------------------------------------------------------------------------
// an argument with a second (alias) short name beside two switches: every spelling that works
// with the first short name works with the alias (alone, attached, with `=`, closing a cluster)
// ------------------------------------------------------------------------------------------
fn alias_short_opts(wrap: usize, multibyte: bool) -> Opts {
    let (a, b) = if multibyte { ('ñ', 'Ñ') } else { ('n', 'N') };
    let names = Names { shorts: vec![a, b], longs: vec!["name".into()], envs: vec![], help: None, long_first: false };
    let arg = P::Arg { names, ty: Ty::Os, adjacent: false, metavar: "NAME".into() };
    let arg = match wrap {
        0 => arg,
        1 => arg.opt(),
        _ => arg.many(),
    };
    Opts::new(P::Seq(vec![P::Switch(Names::short('v')), P::Switch(Names::short('q')), arg]))
}

fn run_alias_short(wrap: usize, multibyte: bool, unit: &Value, only: Option<&[Tok]>, ctx: &mut Ctx) {
    let p = match build_checked(&alias_short_opts(wrap, multibyte)) {
        Ok(p) => p,
        Err(_) => return,
    };
    let names = if multibyte { ['ñ', 'Ñ'] } else { ['n', 'N'] };
    for cluster in ["", "v", "q", "vq", "qv"] {
        for name in names {
            for value in ["Bob", "7", "é"] {
                for form in 0..3 {
                    // (`-vn=7` is not a supported spelling: `=` only follows a lone short name)
                    if form == 1 && !cluster.is_empty() {
                        continue;
                    }
                    let head = format!("-{}{}", cluster, name);
                    let argv: Vec<Tok> = match form {
                        0 => vec![Tok::s(&head), Tok::s(value)],
                        1 => vec![Tok::s(&format!("{}={}", head, value))],
                        _ => vec![Tok::s(&format!("{}{}", head, value))],
                    };
                    if only.map_or(false, |o| o != argv.as_slice()) {
                        continue;
                    }
                    ctx.begin_case(|| json!({"argv": argv}));
                    ctx.s.evaluations += 1;
                    ctx.s.states += 1;
                    let v = Val::s(value);
                    let arg_val = match wrap {
                        0 => v,
                        1 => Val::some(v),
                        _ => Val::L(vec![v]),
                    };
                    let want = Val::T(vec![Val::B(cluster.contains('v')), Val::B(cluster.contains('q')), arg_val]);
                    let got = run(&p, &argv);
                    if got == Outcome::Value(want.clone()) {
                        ctx.s.nontrivial += 1;
                        ctx.count("alias-short-name-spellings-judged");
                    } else {
                        let mut sig = BTreeMap::new();
                        sig.insert("clause".to_string(), "every-short-name-of-an-argument-spells-it".to_string());
                        sig.insert("form".to_string(), ["detached", "equals", "attached"][form].to_string());
                        sig.insert("alias".to_string(), (name == names[1]).to_string());
                        ctx.violation(Violation { property: "C02".into(), rule: "equivalent-spellings-same-value".into(), sig, unit: unit.clone(), case: json!({"argv": argv}), expected: format!("{:?}", want), observed: got.brief(), size: argv.len() * 1000 + argv[0].0.len() });
                    }
                }
            }
        }
    }
}

impl Check for C02 {
    fn id(&self) -> &'static str {
        "C02"
    }
    fn level(&self) -> &'static str {
        "exploration"
    }
    fn units(&self, tier: Tier, seed: u64) -> Vec<Value> {
        let mut out = vec![];
        let sets = name_sets();
        let nsets = sets.len();
        for (si, set) in sets.into_iter().enumerate() {
            // seed rotates which name set gets the big value alphabet first (all sets get all shapes)
            let _ = (si + seed as usize) % nsets;
            for ty in [Ty::Os, Ty::Path, Ty::Str, Ty::U32] {
                for adjacent in [false, true] {
                    for (kind, hidden) in [(Kind::ArgReq, false), (Kind::ArgOpt, false), (Kind::ArgMany, false), (Kind::ArgFallback, false), (Kind::ArgOpt, true), (Kind::ArgMany, true)] {
                        let arg = Named { names: mk_names(set[2]), kind, hidden, ty, adjacent, guarded: false };
                        // shape A: two flags + the argument; shape B: the argument alone, one more occurrence
                        let f1 = Named { names: mk_names(set[0]), kind: Kind::Switch, hidden: false, ty: Ty::Os, adjacent: false, guarded: false };
                        let f2 = Named { names: mk_names(set[1]), kind: Kind::Count, hidden: false, ty: Ty::Os, adjacent: false, guarded: false };
                        let la = Level { named: vec![f1, f2, arg.clone()], tail: Tail::None, version: None, usage_fallback: false };
                        let lb = Level { named: vec![arg], tail: Tail::None, version: None, usage_fallback: false };
                        let full = ty == Ty::Os || tier == Tier::Thorough;
                        out.push(serde_json::to_value(Unit { level: la.clone(), max_occ: 3, values: if full && tier == Tier::Thorough { values_full() } else { values_small() }, wrap: 0 }).unwrap());
                        out.push(serde_json::to_value(Unit { level: lb, max_occ: if kind == Kind::ArgMany { 2 } else { 1 }, values: if full { values_full() } else { values_small() }, wrap: 0 }).unwrap());
                        // metadata-only decorations around the argument (every wrapper the
                        // short-name collection has to see through) on the three-item shape
                        if ty == Ty::Os {
                            for wrap in 1..=8usize {
                                if wrap == 1 && kind != Kind::ArgFallback {
                                    continue;
                                }
                                // the quick tier decorates adjacent arguments only with the late help
                                if adjacent && tier == Tier::Quick && wrap != 7 {
                                    continue;
                                }
                                out.push(serde_json::to_value(Unit { level: la.clone(), max_occ: 2, values: values_small(), wrap }).unwrap());
                            }
                        }
                    }
                }
            }
        }
        // three valued items whose short names are declared in descending order (any lookup
        // table built from the declarations is unsorted), and in ascending order
        for order in [["z", "m", "a"], ["a", "m", "z"], ["m", "z", "a"]] {
            for adjacent in [false, true] {
                let mk = |c: &str, kind: Kind| Named { names: Names::both(c.chars().next().unwrap(), &format!("{}-long", c)), kind, hidden: false, ty: Ty::Os, adjacent, guarded: false };
                let l = Level { named: vec![mk(order[0], Kind::ArgMany), mk(order[1], Kind::ArgOpt), mk(order[2], Kind::ArgOpt)], tail: Tail::None, version: None, usage_fallback: false };
                out.push(serde_json::to_value(Unit { level: l, max_occ: tier.pick(2, 3), values: values_small(), wrap: 0 }).unwrap());
            }
        }
        // an adjacent group led by a valued item: `--x 1 --y 2`, `--x=1 --y=2` and their mixtures
        // must mean the same (the group starts at the name whichever way the value is attached)
        for w in [crate::checks::c19::W::Bare, crate::checks::c19::W::Opt, crate::checks::c19::W::Many] {
            for v in [crate::checks::c19::V::Absent, crate::checks::c19::V::Before] {
                out.push(json!({"argpair": crate::checks::c19::Def { g: crate::checks::c19::G::ArgPair, w, t: crate::checks::c19::T::None, v, len: tier.pick(5, 6) }}));
            }
        }
        for kind in 0..3 {
            out.push(json!({"dual": Dual { kind, len: tier.pick(5, 6) }}));
        }
        for wrap in 0..3 {
            for multibyte in [false, true] {
                out.push(json!({"alias_short": wrap, "multibyte": multibyte}));
            }
        }
        out
    }
    fn run_unit(&self, unit: &Value, ctx: &mut Ctx) {
        if let Some(d) = unit.get("argpair") {
            let d: crate::checks::c19::Def = serde_json::from_value(d.clone()).unwrap();
            if let Ok(p) = build_checked(&crate::checks::c19::to_opts(&d)) {
                let alpha = crate::checks::c19::alphabet_for(d.g);
                tree(&alpha, d.len, &mut |argv| {
                    ctx.begin_case(|| json!({"argv": argv}));
                    ctx.s.evaluations += 1;
                    ctx.s.states += 1;
                    crate::checks::c19::judge_as("C02", &d, unit, &p, argv, ctx);
                    true
                });
            }
            return;
        }
        if let Some(d) = unit.get("dual") {
            let d: Dual = serde_json::from_value(d.clone()).unwrap();
            run_dual(&d, unit, None, ctx);
            return;
        }
        if let Some(w) = unit.get("alias_short").and_then(|w| w.as_u64()) {
            run_alias_short(w as usize, unit["multibyte"].as_bool() == Some(true), unit, None, ctx);
            return;
        }
        let u: Unit = serde_json::from_value(unit.clone()).unwrap();
        let p = match build_checked(&build_unit(&u)) {
            Ok(p) => p,
            Err(e) => {
                ctx.violation(Violation { property: "C02".into(), rule: "definition-builds".into(), sig: BTreeMap::new(), unit: unit.clone(), case: Value::Null, expected: "parser can be constructed".into(), observed: e, size: 0 });
                return;
            }
        };
        for s in sentences(&u.level, &u.values, u.max_occ) {
            ctx.s.states += 1;
            check_sentence(&u.level, u.wrap, unit, &p, &s, ctx);
        }
    }
    fn replay(&self, unit: &Value, case: &Value, ctx: &mut Ctx) {
        if let Some(d) = unit.get("argpair") {
            let d: crate::checks::c19::Def = serde_json::from_value(d.clone()).unwrap();
            let argv: Vec<Tok> = serde_json::from_value(case["argv"].clone()).unwrap_or_default();
            if let Ok(p) = build_checked(&crate::checks::c19::to_opts(&d)) {
                ctx.s.evaluations += 1;
                crate::checks::c19::judge_as("C02", &d, unit, &p, &argv, ctx);
            }
            return;
        }
        if let Some(d) = unit.get("dual") {
            let d: Dual = serde_json::from_value(d.clone()).unwrap();
            let argv: Vec<Tok> = serde_json::from_value(case["argv"].clone()).unwrap_or_default();
            run_dual(&d, unit, Some(&argv), ctx);
            return;
        }
        if let Some(w) = unit.get("alias_short").and_then(|w| w.as_u64()) {
            let argv: Vec<Tok> = serde_json::from_value(case["argv"].clone()).unwrap_or_default();
            run_alias_short(w as usize, unit["multibyte"].as_bool() == Some(true), unit, Some(&argv), ctx);
            return;
        }
        let u: Unit = serde_json::from_value(unit.clone()).unwrap();
        let sent: Vec<Occ> = serde_json::from_value(case["sentence"].clone()).unwrap_or_default();
        let want: Option<Vec<Tok>> = serde_json::from_value(case["argv"].clone()).ok();
        let p = match build_checked(&build_unit(&u)) {
            Ok(p) => p,
            Err(_) => return,
        };
        let mut c2 = Ctx::new(ctx.tier, ctx.seed);
        check_sentence(&u.level, u.wrap, unit, &p, &sent, &mut c2);
        // keep only the violation for the recorded spelling (if given)
        for (k, (n, v)) in c2.s.violations {
            let same_argv = match &want {
                Some(w) => serde_json::from_value::<Vec<Tok>>(v.case["argv"].clone()).map_or(false, |a| &a == w),
                None => true,
            };
            if same_argv {
                ctx.s.violations.insert(k, (n, v));
            }
        }
        ctx.s.evaluations += c2.s.evaluations;
    }
    fn rule(&self) -> String {
        "definitions = {4 name sets incl. 2-, 3- and 4-byte short names and non-ASCII longs} x {OsString, PathBuf, String, u32} x {plain, adjacent} x {required, optional, many, fallback, hidden optional, hidden many} in three shapes (two flags + argument; argument alone; three valued items with short names declared in descending / ascending / mixed order), the three-item shape also with the argument under every metadata-only decoration (displayed fallback, group_help, with_group_help, custom_usage, hide_usage, help attached after the adjacent restriction), below a sub-command, and beside a sub-command whose one-letter alias is the short name of the argument; abstract sentences = all sequences of <= max_occ occurrences (flag | argument with each value of the byte-string alphabet); for each sentence EVERY concrete spelling is generated (--n v, --n=v, -n v, -n=v, -nv, every alias, every clustering of adjacent flags, clusters ending in the argument with =/attached/detached value) and run; plus an adjacent group led by a valued item (--x X --y Y) with every mixture of attached and detached values, plus one name declared twice (adjacent many + plain many in both declaration orders; adjacent optional + switch, the documented `--pkg=NAME` / bare `--pkg` idiom) over every vector of the token tree: the adjacent argument takes exactly the one-item spellings wherever they stand; evaluation = one spelling run; non-trivial = sentence with more than one spelling; plus an argument with a second (alias) short name, ASCII and two-byte, beside two switches, required / optional / many: detached and attached value behind every cluster of the switches (= after a lone name), with either short name".into()
    }
    fn bounds(&self, tier: Tier) -> Value {
        json!({"occurrences_per_sentence": "<=3 (<=2 for the lone repeated argument)", "values": tier.pick("6 values (14 for OsString lone argument)", "14 values everywhere"), "value_alphabet": values_full()})
    }
    fn assumptions(&self) -> Vec<String> {
        vec!["expected outcomes come from the occurrence semantics of harness/src/conv.rs::parse_level applied to the abstract sentence, not from tokenising any spelling".into()]
    }
}
