pub mod c01;
