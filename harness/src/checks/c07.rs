//! C07 — alternatives are exclusive and chosen by what the user typed (reference model).
use crate::def::*;
use crate::explore::*;
use crate::run::*;
use crate::sup::*;
use serde::{Deserialize, Serialize};
use serde_json::{json, Value};
use std::collections::BTreeMap;

pub struct C07;

#[derive(Clone, Copy, Debug, PartialEq, Eq, Serialize, Deserialize)]
pub enum A {
    Req,
    Arg,
    Switch,
    ArgFb,
    Group,
    GroupFA,
    Cmd,
    /// `arg.optional().guard(is_some)`: its absence is reported by a guard, not as a missing item
    ArgPresent,
}
#[derive(Clone, Copy, Debug, PartialEq, Eq, Serialize, Deserialize)]
pub enum W {
    Bare,
    Opt,
    Many,
    Some,
}
#[derive(Clone, Debug, Serialize, Deserialize)]
pub struct Def {
    pub ks: Vec<A>,
    pub w: W,
    pub with_v: bool,
    pub len: usize,
    /// built with the run-time `choice([..])` function rather than `construct!([..])`
    #[serde(default)]
    pub choice_fn: bool,
    /// the first item of every alternative also has a long name, both spellings are in the
    /// alphabet
    #[serde(default)]
    pub long_names: bool,
}

const L1: [&str; 4] = ["la", "lb", "lc", "ld"];
/// second (hidden) short names of the first items when `long_names` is set
const A1: [char; 4] = ['A', 'B', 'C', 'D'];
const S1: [char; 4] = ['a', 'b', 'c', 'd'];
const S2: [char; 4] = ['p', 'q', 'r', 's'];
const CMD: [&str; 4] = ["ca", "cb", "cc", "cd"];

fn alt(k: A, i: usize, long_names: bool) -> P {
    let s1 = if long_names { Names::both(S1[i], L1[i]).alias_s(A1[i]) } else { Names::short(S1[i]) };
    let s2 = Names::short(S2[i]);
    let arg = |n: Names| P::arg(n, Ty::Os);
    let p = match k {
        A::Req => P::ReqFlag(s1),
        A::Arg => arg(s1),
        A::Switch => P::Switch(s1),
        A::ArgFb => arg(s1).fallback(Val::s("D")),
        A::Group => P::Seq(vec![arg(s1), arg(s2)]),
        A::GroupFA => P::Seq(vec![P::ReqFlag(s1), arg(s2)]),
        A::Cmd => P::cmd(CMD[i], Opts::new(P::Seq(vec![P::Switch(s2)]))),
        A::ArgPresent => P::Guard(arg(s1).opt().bx(), GuardK::Present),
    };
    P::Map(p.bx(), format!("k{}", i))
}

pub fn to_opts(d: &Def) -> Opts {
    let members: Vec<P> = d.ks.iter().enumerate().map(|(i, k)| alt(*k, i, d.long_names)).collect();
    let c = if d.choice_fn { P::Choice(members) } else { P::Alt(members) };
    let cw = match d.w {
        W::Bare => c,
        W::Opt => c.opt(),
        W::Many => c.many(),
        W::Some => c.some(),
    };
    let mut f = vec![];
    if d.with_v {
        f.push(P::Switch(Names::short('v')));
    }
    f.push(cw);
    Opts::new(P::Seq(f))
}

pub fn alphabet_for(d: &Def) -> Vec<Tok> {
    let mut alpha: Vec<String> = vec!["1".into(), "2".into()];
    if d.with_v {
        alpha.push("-v".into());
    }
    for (i, k) in d.ks.iter().enumerate() {
        match k {
            A::Group | A::GroupFA => {
                alpha.push(format!("-{}", S1[i]));
                alpha.push(format!("-{}", S2[i]));
            }
            A::Cmd => {
                alpha.push(CMD[i].to_string());
                alpha.push(format!("-{}", S2[i]));
            }
            _ => alpha.push(format!("-{}", S1[i])),
        }
        if d.long_names && *k != A::Cmd {
            alpha.push(format!("--{}", L1[i]));
            // the alias, alone and bundled behind another flag alternative
            if matches!(k, A::Req | A::Switch) {
                alpha.push(format!("-{}", A1[i]));
                if let Some(j) = d.ks.iter().enumerate().position(|(j, kj)| j != i && matches!(kj, A::Req | A::Switch)) {
                    alpha.push(format!("-{}{}", S1[j], A1[i]));
                }
            }
        }
    }
    alpha.iter().map(|s| Tok::s(s)).collect()
}

#[derive(Debug)]
pub enum M {
    Ok(Val),
    Fail,
    Unspec,
}

/// a long name is another spelling of the alternative's first item
fn normalise(d: &Def, argv: &[Tok]) -> Vec<Tok> {
    if !d.long_names {
        return argv.to_vec();
    }
    let mut out = vec![];
    for t in argv {
        let s = t.lossy();
        if let Some(i) = s.strip_prefix("--").and_then(|n| L1.iter().position(|l| *l == n)) {
            out.push(Tok::s(&format!("-{}", S1[i])));
            continue;
        }
        // `-A` and bundles of flag letters `-bA`: one item per letter, aliases as primaries
        let body: Vec<char> = s.strip_prefix('-').map(|b| b.chars().collect()).unwrap_or_default();
        let is_flag_letter = |c: &char| S1.iter().position(|x| x == c).or_else(|| A1.iter().position(|x| x == c)).map_or(false, |i| i < d.ks.len() && matches!(d.ks[i], A::Req | A::Switch));
        if !s.starts_with("--") && !body.is_empty() && (body.len() >= 2 || A1.contains(&body[0])) && body.iter().all(is_flag_letter) {
            for c in body {
                let i = S1.iter().position(|x| *x == c).or_else(|| A1.iter().position(|x| *x == c)).unwrap();
                out.push(Tok::s(&format!("-{}", S1[i])));
            }
            continue;
        }
        out.push(t.clone());
    }
    out
}

pub fn model(d: &Def, argv: &[Tok]) -> M {
    let normal = normalise(d, argv);
    let argv = &normal[..];
    let ks = &d.ks;
    let mut v = 0usize;
    // occurrences: (alternative, letter, value)
    let mut occ: Vec<(usize, char, Option<Tok>)> = vec![];
    let mut i = 0;
    let mut cmd: Option<(usize, Vec<Tok>)> = None;
    let strs: Vec<String> = argv.iter().map(|t| t.lossy()).collect();
    let is_cmd = |s: &str| CMD.contains(&s);
    while i < argv.len() {
        let t = strs[i].as_str();
        if t == "-v" {
            if !d.with_v {
                return M::Fail;
            }
            v += 1;
            i += 1;
            continue;
        }
        if let Some(ci) = CMD.iter().position(|c| *c == t) {
            if ci < ks.len() && ks[ci] == A::Cmd {
                cmd = Some((ci, argv[i + 1..].to_vec()));
                break;
            }
            return M::Fail;
        }
        if t.len() >= 2 && t.starts_with('-') && !t.starts_with("--") {
            let c = t.chars().nth(1).unwrap();
            let rest = &t[2..];
            let (ai, is1) = if let Some(p) = S1.iter().position(|x| *x == c) {
                (p, true)
            } else if let Some(p) = S2.iter().position(|x| *x == c) {
                (p, false)
            } else {
                return M::Fail;
            };
            if ai >= ks.len() {
                return M::Fail;
            }
            let k = ks[ai];
            let takes_val = match (k, is1) {
                (A::Req, true) | (A::Switch, true) | (A::GroupFA, true) => false,
                (A::Arg, true) | (A::ArgFb, true) | (A::Group, true) | (A::ArgPresent, true) => true,
                (A::Group, false) | (A::GroupFA, false) => true,
                (A::Cmd, _) => return M::Unspec,
                _ => return M::Fail,
            };
            if !rest.is_empty() {
                return M::Unspec;
            }
            if takes_val {
                if i + 1 < argv.len() && (!strs[i + 1].starts_with('-') || is_cmd(&strs[i + 1])) {
                    occ.push((ai, c, Some(argv[i + 1].clone())));
                    i += 2;
                    continue;
                } else {
                    return M::Fail;
                }
            }
            occ.push((ai, c, None));
            i += 1;
            continue;
        }
        return M::Fail; // stray word
    }
    if v > 1 {
        return M::Fail;
    }
    let finish = |choice: Val| -> M {
        let mut f = vec![];
        if d.with_v {
            f.push(Val::B(v == 1));
        }
        f.push(choice);
        M::Ok(Val::T(f))
    };
    let wrap1 = |x: Val| -> Val {
        match d.w {
            W::Bare => x,
            W::Opt => Val::some(x),
            W::Many | W::Some => Val::L(vec![x]),
        }
    };
    if let Some((ci, rest)) = cmd {
        match d.w {
            W::Bare | W::Opt => {
                if !occ.is_empty() {
                    return M::Fail;
                }
            }
            _ => return M::Unspec,
        }
        let mut sw = 0;
        for t in &rest {
            let s = t.lossy();
            if s == format!("-{}", S2[ci]) {
                sw += 1;
            } else if s == "-v" {
                return M::Unspec;
            } else {
                return M::Fail;
            }
        }
        if sw > 1 {
            return M::Fail;
        }
        let cv = Val::tag(&format!("k{}", ci), Val::Cmd(CMD[ci].to_string(), Box::new(Val::T(vec![Val::B(sw == 1)]))));
        return finish(wrap1(cv));
    }
    let eval_alt = |ai: usize, os: &[(usize, char, Option<Tok>)]| -> Option<Val> {
        let s1 = S1[ai];
        let s2 = S2[ai];
        let c1: Vec<&(usize, char, Option<Tok>)> = os.iter().filter(|o| o.1 == s1).collect();
        let c2: Vec<&(usize, char, Option<Tok>)> = os.iter().filter(|o| o.1 == s2).collect();
        let val = |o: &(usize, char, Option<Tok>)| Val::S(o.2.clone().unwrap());
        let inner = match ks[ai] {
            A::Req => {
                if c1.len() == 1 && c2.is_empty() {
                    Some(Val::B(true))
                } else {
                    None
                }
            }
            A::Arg => {
                if c1.len() == 1 && c2.is_empty() {
                    Some(val(c1[0]))
                } else {
                    None
                }
            }
            A::Switch => {
                if c1.len() <= 1 && c2.is_empty() {
                    Some(Val::B(c1.len() == 1))
                } else {
                    None
                }
            }
            A::ArgFb => {
                if c1.len() <= 1 && c2.is_empty() {
                    Some(c1.first().map(|o| val(o)).unwrap_or(Val::s("D")))
                } else {
                    None
                }
            }
            A::Group => {
                if c1.len() == 1 && c2.len() == 1 {
                    Some(Val::T(vec![val(c1[0]), val(c2[0])]))
                } else {
                    None
                }
            }
            A::GroupFA => {
                if c1.len() == 1 && c2.len() == 1 {
                    Some(Val::T(vec![Val::B(true), val(c2[0])]))
                } else {
                    None
                }
            }
            A::Cmd => None,
            A::ArgPresent => {
                if c1.len() == 1 && c2.is_empty() {
                    Some(Val::some(val(c1[0])))
                } else {
                    None
                }
            }
        };
        inner.map(|x| Val::tag(&format!("k{}", ai), x))
    };
    let touched: Vec<usize> = {
        let mut u: Vec<usize> = occ.iter().map(|o| o.0).collect();
        u.sort();
        u.dedup();
        u
    };
    match d.w {
        W::Bare | W::Opt => {
            if touched.len() >= 2 {
                return M::Fail;
            }
            if touched.len() == 1 {
                return match eval_alt(touched[0], &occ) {
                    Some(s) => finish(wrap1(s)),
                    None => M::Fail,
                };
            }
            for ai in 0..ks.len() {
                if let Some(s) = eval_alt(ai, &[]) {
                    return finish(wrap1(s));
                }
            }
            if d.w == W::Opt {
                finish(Val::No)
            } else {
                M::Fail
            }
        }
        W::Many | W::Some => {
            if ks.iter().any(|k| !matches!(k, A::Req | A::Arg)) {
                return M::Unspec;
            }
            let vals: Vec<Val> = occ
                .iter()
                .map(|o| {
                    Val::tag(
                        &format!("k{}", o.0),
                        match ks[o.0] {
                            A::Req => Val::B(true),
                            _ => Val::S(o.2.clone().unwrap()),
                        },
                    )
                })
                .collect();
            if d.w == W::Some && vals.is_empty() {
                return M::Fail;
            }
            finish(Val::L(vals))
        }
    }
}

fn judge(d: &Def, unit: &Value, p: &bpaf::OptionParser<Val>, argv: &[Tok], ctx: &mut Ctx) {
    let m = model(d, argv);
    let r = run(p, argv);
    let ok = match (&m, &r) {
        (M::Unspec, Outcome::Panic(_)) => false,
        (M::Unspec, _) => {
            // whether such a line is accepted is not specified - but IF a repeated choice accepts
            // it, the collected values follow command-line order (held for single-item
            // alternatives and commands: every alternative needs exactly one item of its own; a
            // command takes everything to its right, so it comes last)
            if matches!(d.w, W::Many | W::Some) && d.ks.iter().all(|k| matches!(k, A::Req | A::Arg | A::Cmd)) {
                if let Outcome::Value(Val::T(fields)) = &r {
                    if let Some(Val::L(items)) = fields.last() {
                        let got: Vec<String> = items.iter().filter_map(|v| if let Val::Tag(t, _) = v { Some(t.clone()) } else { None }).collect();
                        let mut want: Vec<String> = vec![];
                        let nargv = normalise(d, argv);
                        let mut i = 0;
                        while i < nargv.len() {
                            let s = nargv[i].lossy();
                            i += 1;
                            if let Some(ci) = CMD.iter().position(|c| *c == s) {
                                if ci < d.ks.len() && d.ks[ci] == A::Cmd {
                                    want.push(format!("k{}", ci));
                                    break;
                                }
                            }
                            if let Some(c) = s.strip_prefix('-').and_then(|x| x.chars().next()) {
                                if let Some(ai) = S1.iter().position(|x| *x == c) {
                                    if ai < d.ks.len() && d.ks[ai] != A::Cmd {
                                        want.push(format!("k{}", ai));
                                        if matches!(d.ks[ai], A::Arg | A::Group) {
                                            i += 1; // its value
                                        }
                                    }
                                } else if let Some(ai) = S2.iter().position(|x| *x == c) {
                                    if ai < d.ks.len() && matches!(d.ks[ai], A::Group | A::GroupFA) {
                                        i += 1; // its value
                                    }
                                }
                            }
                        }
                        ctx.count("accepted-unspecified-lines-held-to-command-line-order");
                        if got != want {
                            let mut sig = BTreeMap::new();
                            sig.insert("alts".to_string(), format!("{:?}", d.ks));
                            sig.insert("wrap".to_string(), format!("{:?}", d.w));
                            ctx.violation(Violation { property: "C07".into(), rule: "collected-values-follow-command-line-order".into(), sig, unit: unit.clone(), case: json!({"argv": argv}), expected: format!("alternatives in the order {:?}", want), observed: r.brief(), size: argv.len() * 1000 });
                            return;
                        }
                    }
                }
            }
            ctx.s.skipped += 1;
            return;
        }
        (M::Ok(a), Outcome::Value(b)) => a == b,
        (M::Fail, Outcome::Stderr(t)) => !t.trim().is_empty(),
        _ => false,
    };
    if ok {
        ctx.s.validated += 1;
        let mixing = {
            let mut alts = std::collections::BTreeSet::new();
            for t in argv {
                let s = t.lossy();
                if let Some(c) = s.strip_prefix('-').and_then(|x| x.chars().next()) {
                    if let Some(p) = S1.iter().position(|x| *x == c).or_else(|| S2.iter().position(|x| *x == c)) {
                        alts.insert(p);
                    }
                }
            }
            alts.len()
        };
        if mixing >= 1 {
            ctx.s.nontrivial += 1;
        }
        if mixing >= 2 {
            ctx.count("vectors-mixing-two-alternatives");
        }
        ctx.count(if matches!(m, M::Ok(_)) { "accepted" } else { "rejected" });
        if ctx.wants_sample() && mixing >= 2 {
            ctx.sample(|| json!({"def": d, "argv": argv, "model": format!("{:?}", m), "impl": r.brief()}));
        }
        return;
    }
    let mut sig = BTreeMap::new();
    sig.insert("alts".to_string(), format!("{:?}", d.ks));
    sig.insert("wrap".to_string(), format!("{:?}", d.w));
    sig.insert("model".to_string(), match m { M::Ok(_) => "accept", M::Fail => "reject", M::Unspec => "unspec" }.to_string());
    sig.insert("observed".to_string(), r.class().to_string());
    ctx.violation(Violation {
        property: "C07".into(),
        rule: match m { M::Ok(_) => "exactly-one-alternative-yields-its-value", M::Fail => "mixing-or-incomplete-alternatives-fails", M::Unspec => "no-panic" }.into(),
        sig,
        unit: unit.clone(),
        case: json!({"argv": argv}),
        expected: format!("{:?}", m),
        observed: r.brief(),
        size: argv.len() * 1000,
    });
}

// ------------------------------------------------------------------------------------------
// a choice between two `.adjacent()` commands beside a top-level switch: `[-v] (alpha [-x] | beta [-y])`
// bare / optional / repeated.  A command owns the contiguous run of its own items behind its
// name; what follows belongs to the enclosing level again.
// ------------------------------------------------------------------------------------------
fn adjchain_opts(w: usize) -> Opts {
    let cmd = |name: &str, c: char| P::Cmd { name: name.into(), shorts: vec![], longs: vec![], inner: Box::new(Opts::new(P::Seq(vec![P::Switch(Names::short(c))]))), adjacent: true, help: None };
    let choice = P::Alt(vec![P::Map(cmd("alpha", 'x').bx(), "A".into()), P::Map(cmd("beta", 'y').bx(), "B".into())]);
    let cw = match w {
        0 => choice,
        1 => choice.opt(),
        _ => choice.many(),
    };
    Opts::new(P::Seq(vec![P::Switch(Names::short('v')), cw]))
}

fn adjchain_model(w: usize, argv: &[Tok]) -> Option<Val> {
    let mut v = 0;
    let mut blocks = vec![];
    let mut i = 0;
    while i < argv.len() {
        let t = argv[i].lossy();
        match t.as_str() {
            "-v" => {
                v += 1;
                i += 1;
            }
            "alpha" | "beta" => {
                let (tag, own) = if t == "alpha" { ("A", "-x") } else { ("B", "-y") };
                i += 1;
                let mut flag = false;
                if i < argv.len() && argv[i].lossy() == own {
                    flag = true;
                    i += 1;
                }
                blocks.push(Val::tag(tag, Val::Cmd(t.clone(), Box::new(Val::T(vec![Val::B(flag)])))));
            }
            _ => return None,
        }
    }
    if v > 1 {
        return None;
    }
    let c = match w {
        0 => {
            if blocks.len() != 1 {
                return None;
            }
            blocks.pop().unwrap()
        }
        1 => match blocks.len() {
            0 => Val::No,
            1 => Val::some(blocks.pop().unwrap()),
            _ => return None,
        },
        _ => Val::L(blocks),
    };
    Some(Val::T(vec![Val::B(v == 1), c]))
}

fn run_adjchain(w: usize, len: usize, unit: &Value, only: Option<&[Tok]>, ctx: &mut Ctx) {
    let p = match build_checked(&adjchain_opts(w)) {
        Ok(p) => p,
        Err(_) => return,
    };
    let mut one = |argv: &[Tok], ctx: &mut Ctx| {
        ctx.begin_case(|| json!({"argv": argv}));
        ctx.s.evaluations += 1;
        ctx.s.states += 1;
        let m = adjchain_model(w, argv);
        let r = run(&p, argv);
        let ok = match (&m, &r) {
            (Some(a), Outcome::Value(b)) => a == b,
            (None, Outcome::Stderr(t)) => !t.trim().is_empty(),
            _ => false,
        };
        if ok {
            ctx.s.validated += 1;
            if argv.iter().any(|t| t.0 == b"alpha" || t.0 == b"beta") {
                ctx.s.nontrivial += 1;
            }
            ctx.count("adjacent-command-choice-judged");
            return;
        }
        let mut sig = BTreeMap::new();
        sig.insert("alts".to_string(), "[adjacent command alpha, adjacent command beta]".to_string());
        sig.insert("wrap".to_string(), ["Bare", "Opt", "Many"][w].to_string());
        sig.insert("model".to_string(), if m.is_some() { "accept" } else { "reject" }.to_string());
        sig.insert("observed".to_string(), r.class().to_string());
        ctx.violation(Violation { property: "C07".into(), rule: if m.is_some() { "exactly-one-alternative-yields-its-value" } else { "mixing-or-incomplete-alternatives-fails" }.into(), sig, unit: unit.clone(), case: json!({"argv": argv}), expected: format!("{:?}", m), observed: r.brief(), size: argv.len() * 1000 });
    };
    if let Some(a) = only {
        one(a, ctx);
        return;
    }
    tree(&toks(&["alpha", "beta", "-x", "-y", "-v", "w"]), len, &mut |argv| {
        one(argv, ctx);
        true
    });
}

// ------------------------------------------------------------------------------------------
// an alternative that is a flag with an environment fallback: when the flag is typed the state of
// the variable does not matter (the typed flag is consumed, that alternative is the one touched)
// ------------------------------------------------------------------------------------------
const ENV7: &str = "BPAFMC_C07";
fn envflag_opts(w: usize, order: usize) -> Opts {
    let intel = P::Map(P::ReqFlag(Names::both('i', "intel").env(ENV7)).bx(), "I".into());
    let att = P::Map(P::ReqFlag(Names::long("att")).bx(), "A".into());
    let choice = if order == 0 { P::Alt(vec![intel, att]) } else { P::Alt(vec![att, intel]) };
    let cw = match w {
        0 => choice,
        1 => choice.opt(),
        2 => choice.many(),
        _ => P::Some_(choice.bx(), false),
    };
    Opts::new(P::Seq(vec![P::Switch(Names::short('v')), cw]))
}

fn run_envflag(w: usize, order: usize, unit: &Value, only: Option<&[Tok]>, ctx: &mut Ctx) {
    let lines: Vec<Vec<&str>> = vec![vec!["--intel"], vec!["-i"], vec!["-v", "--intel"], vec!["--intel", "-v"], vec!["-vi"], vec!["--intel", "--intel"], vec!["-i", "-v", "--intel"]];
    for l in lines {
        let argv: Vec<Tok> = l.iter().map(|s| Tok::s(s)).collect();
        if only.map_or(false, |o| o != argv.as_slice()) {
            continue;
        }
        ctx.begin_case(|| json!({"argv": argv}));
        ctx.s.evaluations += 2;
        ctx.s.states += 1;
        // fresh parser values: nothing may depend on an earlier run
        let (p1, p2) = match (build_checked(&envflag_opts(w, order)), build_checked(&envflag_opts(w, order))) {
            (Ok(a), Ok(b)) => (a, b),
            _ => return,
        };
        std::env::remove_var(ENV7);
        let unset = run(&p1, &argv);
        std::env::set_var(ENV7, "1");
        let set = run(&p2, &argv);
        std::env::remove_var(ENV7);
        if unset == set {
            ctx.s.nontrivial += 1;
            ctx.count("typed-env-backed-alternatives-judged");
        } else {
            let mut sig = BTreeMap::new();
            sig.insert("clause".to_string(), "typed-flag-alternative-does-not-depend-on-its-variable".to_string());
            sig.insert("observed".to_string(), set.class().to_string());
            ctx.violation(Violation { property: "C07".into(), rule: "typed-flag-alternative-does-not-depend-on-its-variable".into(), sig, unit: unit.clone(), case: json!({"argv": argv}), expected: format!("with {} set, the outcome of the same line with it unset: {}", ENV7, unset.brief()), observed: set.brief(), size: argv.len() * 1000 });
        }
    }
}

impl Check for C07 {
    fn id(&self) -> &'static str {
        "C07"
    }
    fn level(&self) -> &'static str {
        "model_checking"
    }
    fn units(&self, tier: Tier, _seed: u64) -> Vec<Value> {
        let kinds = [A::Req, A::Arg, A::Switch, A::ArgFb, A::Group, A::GroupFA, A::Cmd];
        let mut out = vec![];
        for w in [W::Bare, W::Opt, W::Many, W::Some] {
            for with_v in [false, true] {
                for a in kinds {
                    for b in kinds {
                        out.push(Def { ks: vec![a, b], w, with_v, len: tier.pick(5, 6), choice_fn: false, long_names: false });
                        if !with_v {
                            for c in kinds {
                                out.push(Def { ks: vec![a, b, c], w, with_v, len: tier.pick(4, 5), choice_fn: false, long_names: false });
                            }
                        }
                    }
                }
            }
        }
        if tier == Tier::Thorough {
            // four alternatives over the single-item kinds + group
            let k4 = [A::Req, A::Arg, A::ArgFb, A::Group];
            for w in [W::Bare, W::Opt, W::Many] {
                for a in k4 {
                    for b in k4 {
                        for c in k4 {
                            for e in k4 {
                                out.push(Def { ks: vec![a, b, c, e], w, with_v: false, len: 4, choice_fn: false, long_names: false });
                            }
                        }
                    }
                }
            }
        }
        // an alternative whose absence is reported by a guard: the later alternatives still get
        // their turn (bare choices only: such an alternative makes optional / repeated choices fail)
        for other in [A::Req, A::Arg, A::Switch, A::ArgFb, A::Group] {
            for with_v in [false, true] {
                out.push(Def { ks: vec![A::ArgPresent, other], w: W::Bare, with_v, len: tier.pick(4, 5), choice_fn: false, long_names: false });
                out.push(Def { ks: vec![other, A::ArgPresent], w: W::Bare, with_v, len: tier.pick(4, 5), choice_fn: false, long_names: false });
                out.push(Def { ks: vec![A::ArgPresent, other, A::Req], w: W::Bare, with_v, len: tier.pick(3, 4), choice_fn: false, long_names: false });
            }
        }
        // both spellings of every alternative's first item (a flag found by any of its names must
        // be the leftmost one)
        let mut with_long: Vec<Def> = out.iter().filter(|d| d.ks.len() <= 3 && !d.with_v).cloned().map(|mut d| {
            d.long_names = true;
            d.len = d.len.min(tier.pick(3, 4));
            d
        }).collect();
        out.append(&mut with_long);
        // the same choices assembled by the run-time `choice([..])` function
        let mut via_fn: Vec<Def> = out.iter().cloned().map(|mut d| {
            d.choice_fn = true;
            if tier == Tier::Quick {
                d.len = d.len.min(3);
            }
            d
        }).collect();
        out.append(&mut via_fn);
        let mut out: Vec<Value> = out.into_iter().map(|d| serde_json::to_value(d).unwrap()).collect();
        // a choice between two different adjacent groups (C19's block scanner), bare / optional /
        // repeated, beside a switch declared before or after it
        for w in 0..3 {
            out.push(json!({"adjchain": w, "len": tier.pick(5, 6)}));
        }
        for w in 0..4 {
            for order in 0..2 {
                out.push(json!({"envflag": w, "order": order}));
            }
        }
        for w in [crate::checks::c19::W::Bare, crate::checks::c19::W::Opt, crate::checks::c19::W::Many] {
            for v in [crate::checks::c19::V::Absent, crate::checks::c19::V::Before, crate::checks::c19::V::After] {
                out.push(json!({"twokinds": crate::checks::c19::Def { g: crate::checks::c19::G::TwoKinds, w, t: crate::checks::c19::T::None, v, len: tier.pick(5, 6) }}));
            }
        }
        out
    }
    fn run_unit(&self, unit: &Value, ctx: &mut Ctx) {
        if let Some(w) = unit.get("envflag").and_then(|w| w.as_u64()) {
            run_envflag(w as usize, unit["order"].as_u64().unwrap_or(0) as usize, unit, None, ctx);
            return;
        }
        if let Some(w) = unit.get("adjchain").and_then(|w| w.as_u64()) {
            run_adjchain(w as usize, unit["len"].as_u64().unwrap_or(5) as usize, unit, None, ctx);
            return;
        }
        if let Some(t) = unit.get("twokinds") {
            let d: crate::checks::c19::Def = serde_json::from_value(t.clone()).unwrap();
            if let Ok(p) = build_checked(&crate::checks::c19::to_opts(&d)) {
                let alpha = crate::checks::c19::alphabet_for(d.g);
                tree(&alpha, d.len, &mut |argv| {
                    ctx.begin_case(|| json!({"argv": argv}));
                    ctx.s.evaluations += 1;
                    ctx.s.states += 1;
                    crate::checks::c19::judge_as("C07", &d, unit, &p, argv, ctx);
                    true
                });
            }
            return;
        }
        let d: Def = serde_json::from_value(unit.clone()).unwrap();
        let p = match build_checked(&to_opts(&d)) {
            Ok(p) => p,
            Err(_) => return,
        };
        let alpha = alphabet_for(&d);
        tree(&alpha, d.len, &mut |argv| {
            ctx.begin_case(|| json!({"argv": argv}));
            ctx.s.evaluations += 1;
            ctx.s.states += 1;
            if !argv.is_empty() {
                ctx.s.transitions += 1;
            }
            judge(&d, unit, &p, argv, ctx);
            true
        });
    }
    fn replay(&self, unit: &Value, case: &Value, ctx: &mut Ctx) {
        if let Some(w) = unit.get("envflag").and_then(|w| w.as_u64()) {
            let argv: Vec<Tok> = serde_json::from_value(case["argv"].clone()).unwrap_or_default();
            run_envflag(w as usize, unit["order"].as_u64().unwrap_or(0) as usize, unit, Some(&argv), ctx);
            return;
        }
        if let Some(w) = unit.get("adjchain").and_then(|w| w.as_u64()) {
            let argv: Vec<Tok> = serde_json::from_value(case["argv"].clone()).unwrap_or_default();
            run_adjchain(w as usize, 0, unit, Some(&argv), ctx);
            return;
        }
        if let Some(t) = unit.get("twokinds") {
            let d: crate::checks::c19::Def = serde_json::from_value(t.clone()).unwrap();
            let argv: Vec<Tok> = serde_json::from_value(case["argv"].clone()).unwrap_or_default();
            if let Ok(p) = build_checked(&crate::checks::c19::to_opts(&d)) {
                ctx.s.evaluations += 1;
                crate::checks::c19::judge_as("C07", &d, unit, &p, &argv, ctx);
            }
            return;
        }
        let d: Def = serde_json::from_value(unit.clone()).unwrap();
        let argv: Vec<Tok> = serde_json::from_value(case["argv"].clone()).unwrap_or_default();
        if let Ok(p) = build_checked(&to_opts(&d)) {
            ctx.s.evaluations += 1;
            judge(&d, unit, &p, &argv, ctx);
        }
    }
    fn rule(&self) -> String {
        "definitions = construct!([a1..an]) and choice([a1..an]) (the run-time function; quick: vectors up to 3 items) for every ordered tuple of n=2,3 (thorough: also 4) alternatives from {req_flag, argument, switch, argument with fallback, group of two arguments, group flag+argument, command}, the choice bare / optional / many / some, with and without a neighbouring switch; every vector of the token tree over the alternatives' names, two values, command names; reference model: T = alternatives whose names occur; |T|=0 -> first alternative accepting the empty line, |T|=1 -> that alternative's grammar, |T|>=2 -> failure; many/some over single-item alternatives -> list in command-line order; lines outside the model (a repeated choice containing a command or a group) are not judged for acceptance, but for choices over single-item alternatives and commands an accepted one must list its values in command-line order; state = (definition, vector); non-trivial = judged vector containing at least one alternative's item; plus a choice with a flag alternative backed by an environment variable (bare / optional / many / some, either order): lines that type the flag give the same outcome with the variable set and unset".into()
    }
    fn bounds(&self, tier: Tier) -> Value {
        json!({"alternatives": tier.pick("2..3", "2..4"), "vector_length": tier.pick("5 (n=2), 4 (n=3)", "6 (n=2), 5 (n=3), 4 (n=4)")})
    }
    fn assumptions(&self) -> Vec<String> {
        vec!["unspecified (executed, not judged): many/some over multi-item alternatives, enclosing-level switch right of a command name, attached short values".into()]
    }
}
