//! C01 — parsing conforms to the declared grammar (reference scanner vs implementation on
//! every node of the token tree of every definition of the conventional family).
use crate::conv::*;
use crate::def::*;
use crate::explore::*;
use crate::fam;
use crate::run::*;
use crate::sup::*;
use serde::{Deserialize, Serialize};
use serde_json::{json, Value};
use std::collections::BTreeMap;

pub struct C01;

#[derive(Serialize, Deserialize)]
pub struct Unit {
    pub level: Level,
    pub len: usize,
    pub full_alpha: bool,
    /// sentence mode: 0 = token tree; 1 = every generated sentence; 2 = sentences and every
    /// vector within one edit operation of a sentence
    #[serde(default)]
    pub sent: usize,
    /// valued items are u32: the value `v` of the alphabet is written `7`, `w` stays invalid
    #[serde(default)]
    pub typed: bool,
    /// valued items are PathBuf: the value `v` of the alphabet is written as bytes that are not
    /// valid UTF-8 (a path is taken as is)
    #[serde(default)]
    pub path_values: bool,
}

/// switches with multi-byte short names beside a valued item with an ASCII short name
fn non_ascii_levels() -> Vec<Level> {
    let mut out = vec![];
    let mk = |c: char, kind: Kind| Named { names: Names::short(c), kind, hidden: false, ty: Ty::Os, adjacent: false, guarded: false };
    for ak in [Kind::ArgReq, Kind::ArgOpt, Kind::ArgMany] {
        for tail in [Tail::None, fam::pos(&[PosKind::Opt]), fam::pos(&[PosKind::Many])] {
            out.push(fam::leaf(vec![mk('ñ', Kind::Switch), mk('o', ak)], tail.clone()));
            out.push(fam::leaf(vec![mk('ñ', Kind::Switch), mk('é', Kind::Count), mk('o', ak)], tail));
        }
    }
    // a valued item whose short name sits at a boundary of the UTF-8 lead-byte classes
    // (C2 / DF | E0 / E1 / ED / EE / EF | F0 / F1 / F4)
    for c in ['\u{a1}', '\u{7fa}', '\u{800}', '\u{e01}', '\u{1100}', '\u{d7ff}', '\u{e000}', '\u{fffc}', '\u{10000}', '\u{1f980}', '\u{40000}', '\u{100000}'] {
        out.push(fam::leaf(vec![mk('s', Kind::Switch), mk(c, Kind::ArgOpt)], fam::pos(&[PosKind::Opt])));
    }
    out
}

fn path_typed(ls: Vec<Level>) -> Vec<Level> {
    fn set(l: &mut Level) {
        for n in l.named.iter_mut() {
            if n.kind.is_arg() {
                n.ty = Ty::Path;
            }
        }
        if let Tail::Cmds { cmds, .. } = &mut l.tail {
            for c in cmds {
                set(&mut c.level);
            }
        }
    }
    ls.into_iter()
        .map(|mut l| {
            set(&mut l);
            l
        })
        .collect()
}

/// `v` -> `f\xff` wherever it is a whole word or an attached value
fn bytes_alphabet(alpha: Vec<Tok>) -> Vec<Tok> {
    alpha
        .into_iter()
        .map(|t| match t.utf8() {
            Some("v") => Tok(vec![b'f', 0xff]),
            Some(s) if s.ends_with("=v") => {
                let mut b = s.as_bytes()[..s.len() - 1].to_vec();
                b.extend([b'f', 0xff]);
                Tok(b)
            }
            _ => t,
        })
        .collect()
}

/// every valued named item converts to u32
fn typed_u32(ls: Vec<Level>) -> Vec<Level> {
    fn set(l: &mut Level) {
        for n in l.named.iter_mut() {
            if n.kind.is_arg() {
                n.ty = Ty::U32;
            }
        }
        if let Tail::Cmds { cmds, .. } = &mut l.tail {
            for c in cmds {
                set(&mut c.level);
            }
        }
    }
    ls.into_iter()
        .map(|mut l| {
            set(&mut l);
            l
        })
        .collect()
}

/// `v` -> `7` wherever it is a whole word or an attached value
fn numeric_alphabet(alpha: Vec<Tok>) -> Vec<Tok> {
    alpha
        .into_iter()
        .map(|t| match t.utf8() {
            Some("v") => Tok::s("7"),
            Some(s) if s.ends_with("=v") => Tok::s(&format!("{}7", &s[..s.len() - 1])),
            _ => t,
        })
        .collect()
}

pub fn sig_level(l: &Level) -> String {
    let kinds: Vec<String> = l.named.iter().map(|n| format!("{:?}", n.kind)).collect();
    let tail = match &l.tail {
        Tail::None => "none".to_string(),
        Tail::Pos(p) => format!("pos{}", p.len()),
        Tail::Cmds { wrap, .. } => format!("cmds-{:?}", wrap),
    };
    format!("[{}]+{}", kinds.join(","), tail)
}

/// compare model and implementation for one vector; returns a violation if they disagree
pub fn judge(prop: &str, level: &Level, unit: &Value, model: &Model, p: &bpaf::OptionParser<Val>, argv: &[Tok], env: &Env, ctx: &mut Ctx) -> Option<()> {
    let m = model.run(argv, env);
    let r = run(p, argv);
    let (rule, expected): (&str, String) = match (&m, &r) {
        (Out::Unspec(_), Outcome::Panic(_)) => ("no-panic", "any non-panicking outcome".into()),
        (Out::Unspec(_), _) => {
            ctx.s.skipped += 1;
            return None;
        }
        (Out::Ok(a), Outcome::Value(b)) if a == b => {
            ctx.s.validated += 1;
            ctx.s.nontrivial += 1;
            ctx.count("accepted");
            if ctx.wants_sample() && argv.len() >= 2 {
                ctx.sample(|| json!({"def": sig_level(level), "argv": argv, "model": "accept", "impl": r.brief()}));
            }
            return None;
        }
        (Out::Fail, Outcome::Stderr(t)) if !t.trim().is_empty() => {
            ctx.s.validated += 1;
            ctx.count("rejected");
            if !argv.is_empty() {
                ctx.s.nontrivial += 1;
            }
            return None;
        }
        (Out::Usage, Outcome::Stdout { text, .. }) if text.contains("Usage") => {
            ctx.s.validated += 1;
            ctx.count("usage-fallback");
            return None;
        }
        (Out::Usage, _) => ("empty-line-with-fallback_to_usage-prints-usage", "usage on stdout".into()),
        (Out::Ok(a), _) => ("sentence-accepted-with-denoted-value", format!("value {:?}", a)),
        (Out::Fail, _) => ("non-sentence-fails-on-stderr", "stderr failure with a non-empty message".into()),
    };
    let mut sig = BTreeMap::new();
    sig.insert("def".to_string(), sig_level(level));
    sig.insert("observed".to_string(), r.class().to_string());
    ctx.violation(Violation { property: prop.into(), rule: rule.into(), sig, unit: unit.clone(), case: json!({"argv": argv, "env": env}), expected, observed: r.brief(), size: argv.len() * 1000 + argv.iter().map(|t| t.0.len()).sum::<usize>() });
    Some(())
}

pub fn with_usage_fallback(ls: Vec<Level>) -> Vec<Level> {
    fn set(l: &mut Level) {
        l.usage_fallback = true;
        if let Tail::Cmds { cmds, .. } = &mut l.tail {
            for c in cmds {
                set(&mut c.level);
            }
        }
    }
    ls.into_iter()
        .map(|mut l| {
            set(&mut l);
            l
        })
        .collect()
}

impl Check for C01 {
    fn id(&self) -> &'static str {
        "C01"
    }
    fn level(&self) -> &'static str {
        "model_checking"
    }
    fn units(&self, tier: Tier, seed: u64) -> Vec<Value> {
        let mut out: Vec<Value> = vec![];
        macro_rules! push {
            ($levels:expr, $len:expr, $full:expr) => {
                for l in $levels {
                    out.push(serde_json::to_value(Unit { level: l, len: $len, full_alpha: $full, sent: 0, typed: false, path_values: false }).unwrap());
                }
            };
        }
        let mut tails = vec![Tail::None];
        tails.extend(fam::pos_tails());
        match tier {
            Tier::Quick => {
                let mut t2 = tails.clone();
                t2.extend(fam::cmd_tails(seed, true, true));
                push!(fam::conventional(2, &t2, seed), 3, false);
                // one item, deeper, full alphabet (aliases, clusters, lone dash, empty inline
                // values): length 4 without commands, length 3 with them
                push!(fam::conventional(1, &tails, seed + 1), 4, true);
                push!(fam::conventional(1, &fam::cmd_tails(seed, true, true), seed + 1), 3, true);
                // fallback_to_usage on every level: only a line without any item may print usage
                push!(with_usage_fallback(fam::conventional(2, &t2, seed + 2)).into_iter().step_by(5).collect::<Vec<_>>(), 3, false);
                // typed values: every valued item converts to u32, the alphabet has one valid
                // and one invalid value
                for l in typed_u32(fam::conventional(1, &t2, seed + 5)) {
                    out.push(serde_json::to_value(Unit { level: l, len: 4, full_alpha: false, sent: 0, typed: true, path_values: false }).unwrap());
                }
                for l in typed_u32(fam::conventional(2, &[Tail::None, fam::pos(&[PosKind::Opt])], seed + 5)) {
                    out.push(serde_json::to_value(Unit { level: l, len: 4, full_alpha: false, sent: 0, typed: true, path_values: false }).unwrap());
                }
                // multi-byte short names in one block with a valued item
                for l in non_ascii_levels() {
                    out.push(serde_json::to_value(Unit { level: l, len: 3, full_alpha: true, sent: 0, typed: false, path_values: false }).unwrap());
                }
                // PathBuf values that are not valid UTF-8
                for l in path_typed(fam::conventional(1, &[Tail::None, fam::pos(&[PosKind::Opt])], seed + 6)) {
                    out.push(serde_json::to_value(Unit { level: l, len: 3, full_alpha: false, sent: 0, typed: false, path_values: true }).unwrap());
                }
                // long vectors: every sentence the grammar generates (all definitions) and every
                // vector within one edit operation of a sentence (every fourth definition)
                for (i, l) in fam::conventional(2, &t2, seed + 3).into_iter().enumerate() {
                    out.push(serde_json::to_value(Unit { level: l, len: 3, full_alpha: false, sent: if i % 4 == 0 { 2 } else { 1 }, typed: false, path_values: false }).unwrap());
                }
            }
            Tier::Thorough => {
                let mut t2 = tails.clone();
                t2.extend(fam::cmd_tails(seed, true, true));
                push!(fam::conventional(2, &t2, seed), 4, false);
                push!(fam::conventional(2, &t2, seed + 1), 3, true);
                push!(fam::conventional(1, &t2, seed + 2), 5, true);
                let small = vec![Tail::None, fam::pos(&[PosKind::Opt]), fam::pos(&[PosKind::Req, PosKind::Many]), fam::cmd_tails(seed, false, false)[1].clone()];
                push!(fam::conventional(3, &small, seed + 3), 3, false);
                push!(with_usage_fallback(fam::conventional(2, &t2, seed + 2)), 3, false);
                for l in non_ascii_levels() {
                    out.push(serde_json::to_value(Unit { level: l, len: 4, full_alpha: true, sent: 0, typed: false, path_values: false }).unwrap());
                }
                for l in path_typed(fam::conventional(2, &[Tail::None, fam::pos(&[PosKind::Opt])], seed + 6)) {
                    out.push(serde_json::to_value(Unit { level: l, len: 4, full_alpha: false, sent: 0, typed: false, path_values: true }).unwrap());
                }
                for l in typed_u32(fam::conventional(1, &t2, seed + 5)) {
                    out.push(serde_json::to_value(Unit { level: l, len: 5, full_alpha: false, sent: 0, typed: true, path_values: false }).unwrap());
                }
                for l in typed_u32(fam::conventional(2, &t2, seed + 5)) {
                    out.push(serde_json::to_value(Unit { level: l, len: 4, full_alpha: false, sent: 0, typed: true, path_values: false }).unwrap());
                }
                for l in fam::conventional(2, &t2, seed + 3) {
                    out.push(serde_json::to_value(Unit { level: l, len: 3, full_alpha: false, sent: 2, typed: false, path_values: false }).unwrap());
                }
                for (i, l) in fam::conventional(3, &small, seed + 4).into_iter().enumerate() {
                    out.push(serde_json::to_value(Unit { level: l, len: 3, full_alpha: false, sent: if i % 3 == 0 { 2 } else { 1 }, typed: false, path_values: false }).unwrap());
                }
            }
        }
        out
    }
    fn run_unit(&self, unit: &Value, ctx: &mut Ctx) {
        let u: Unit = serde_json::from_value(unit.clone()).unwrap();
        let p = match build_checked(&u.level.to_opts()) {
            Ok(p) => p,
            Err(e) => {
                ctx.violation(Violation { property: "C01".into(), rule: "definition-builds".into(), sig: BTreeMap::new(), unit: unit.clone(), case: Value::Null, expected: "parser can be constructed".into(), observed: e, size: 0 });
                return;
            }
        };
        let model = Model::new(&u.level);
        let mut alpha = alphabet(&u.level, if u.full_alpha { AlphaStyle::Full } else { AlphaStyle::Compact });
        if u.typed {
            alpha = numeric_alphabet(alpha);
        }
        if u.path_values {
            alpha = bytes_alphabet(alpha);
        }
        let env = Env::new();
        if u.sent > 0 {
            // sentences and their one-edit neighbourhood; vectors short enough for the token
            // tree are left to it, duplicates are run once
            let mut seen: std::collections::HashSet<Vec<Tok>> = std::collections::HashSet::new();
            let sents = crate::sent::sentences(&u.level, true);
            ctx.count_n("sentences-generated", sents.len() as u64);
            let mut longest = 0;
            for s in &sents {
                longest = longest.max(s.len());
                let mut go = |v: Vec<Tok>, ctx: &mut Ctx| {
                    if v.len() <= u.len || !seen.insert(v.clone()) {
                        return;
                    }
                    ctx.begin_case(|| json!({"argv": v}));
                    ctx.s.evaluations += 1;
                    ctx.s.states += 1;
                    ctx.s.transitions += 1;
                    judge("C01", &u.level, unit, &model, &p, &v, &env, ctx);
                };
                go(s.clone(), ctx);
                if u.sent >= 2 {
                    crate::sent::deviations(s, &alpha, &mut |v| go(v, ctx));
                }
            }
            ctx.count(&format!("definitions-whose-longest-sentence-has-{:02}-items", longest));
            return;
        }
        tree(&alpha, u.len, &mut |argv| {
            ctx.begin_case(|| json!({"argv": argv}));
            ctx.s.evaluations += 1;
            ctx.s.states += 1;
            if !argv.is_empty() {
                ctx.s.transitions += 1;
            }
            judge("C01", &u.level, unit, &model, &p, argv, &env, ctx);
            true
        });
    }
    fn replay(&self, unit: &Value, case: &Value, ctx: &mut Ctx) {
        let u: Unit = serde_json::from_value(unit.clone()).unwrap();
        let argv: Vec<Tok> = serde_json::from_value(case["argv"].clone()).unwrap_or_default();
        let p = match build_checked(&u.level.to_opts()) {
            Ok(p) => p,
            Err(e) => {
                ctx.violation(Violation { property: "C01".into(), rule: "definition-builds".into(), sig: BTreeMap::new(), unit: unit.clone(), case: Value::Null, expected: "parser can be constructed".into(), observed: e, size: 0 });
                return;
            }
        };
        let model = Model::new(&u.level);
        ctx.s.evaluations += 1;
        judge("C01", &u.level, unit, &model, &p, &argv, &Env::new(), ctx);
    }
    fn rule(&self) -> String {
        "every definition of the conventional family (all ordered tuples of item kinds x tails, naming styles rotated by seed) x every vector of the token tree Sigma^{<=L} (Sigma = every declared spelling, inline forms, words, `--`, unknown names, command names); a state is a (definition, vector) node, a transition appends one token; plus, for long vectors, every sentence the grammar generates (all legal occurrence counts, spellings cycled, declaration and reverse order, words after / before the named items and behind `--`, every command and alias recursively) and every vector within ONE edit operation of a sentence (insert or replace by any token of Sigma at any position, delete, duplicate, swap neighbours); levels with multi-byte short switch names beside an ASCII valued item (clusters), PathBuf-valued levels whose alphabet carries a non-UTF-8 value, a typed sub-family converts every valued item to u32 over an alphabet with one valid (7) and one invalid (w) value; each node is judged by the reference scanner (accept+value / reject) against run_inner; non-trivial = node judged by the model (not in the unspecified region) and not the empty vector when rejected; nodes are distinct by construction (a tree has no converging paths); plus valued items whose short name sits at each boundary of the UTF-8 lead-byte classes".into()
    }
    fn bounds(&self, tier: Tier) -> Value {
        match tier {
            Tier::Quick => json!({"named_items_per_level": "<=2 (all 10 kinds, ordered)", "tails": "none, 7 positional suffixes, command tails incl. depth 3, aliases, optional/fallback choice", "vector_length": "3 (compact alphabet), 4 (<=1 item, full alphabet, no commands), 3 (<=1 item, full alphabet, commands; fallback_to_usage sample), 4 (u32-typed values: <=1 item all tails, <=2 items without / with one optional positional)", "sentences": "all; one-edit neighbourhood for every 4th definition"}),
            Tier::Thorough => json!({"named_items_per_level": "<=3", "vector_length": "4 (<=2 items), 5 (<=1 item, full alphabet), 3 (3 items), u32-typed values: 5 (<=1 item), 4 (<=2 items)", "sentences": "all with their one-edit neighbourhood (<=2 items); every third definition with 3 items"}),
        }
    }
    fn assumptions(&self) -> Vec<String> {
        vec!["the reference scanner (harness/src/conv.rs) encodes the documented grammar; lines in the unspecified region (help/version tokens, enclosing-level options right of a command name, multi-character single-dash items with an undeclared letter) are executed but not judged".into()]
    }
}
