//! C18 — environment variables are a fallback below the command line.  The reference scanner
//! gives an item without any occurrence on the line one synthetic occurrence from the first
//! declared variable that is set; every (definition, environment state, vector) is judged.
use crate::checks::c01::judge;
use crate::conv::*;
use crate::def::*;
use crate::explore::*;
use crate::run::*;
use crate::sup::*;
use serde::{Deserialize, Serialize};
use serde_json::{json, Value};
use std::collections::BTreeMap;

pub struct C18;

#[derive(Serialize, Deserialize)]
pub struct Unit {
    pub level: Level,
    pub len: usize,
    pub vars: Vec<String>,
    /// defaults are written `fallback_with(|| Ok(v))` instead of `fallback(v)`: the same parser
    #[serde(default)]
    pub fallback_with: bool,
}

fn opts_of(u: &Unit) -> Opts {
    let mut o = u.level.to_opts();
    if u.fallback_with {
        fn swap(p: &mut P) {
            if let P::Fallback(x, v, _) = p {
                let inner = (**x).clone();
                *p = P::FallbackWith(inner.bx(), Ok(v.clone()));
            }
            match p {
                P::Cmd { inner, .. } => swap(&mut inner.p),
                P::Seq(v) | P::Alt(v) | P::Choice(v) | P::Adj(v) => v.iter_mut().for_each(swap),
                P::Optional(x, _) | P::Many(x, _) | P::Some_(x, _) | P::Hide(x) | P::FallbackWith(x, _) | P::Guard(x, _) => swap(x),
                _ => {}
            }
        }
        swap(&mut o.p);
    }
    o
}

const VA: &str = "BPAFMC_A";
const VB: &str = "BPAFMC_B";
const LOOKALIKES: [&str; 4] = ["BPAFMC_", "BPAFMC_AA", "bpafmc_a", "XBPAFMC_A"];

fn states() -> Vec<Option<Tok>> {
    // unset, empty, valid, invalid, non-UTF-8, a number that converts but fails the guard of
    // guarded items, and a value with a blank line in it (shown in the help)
    vec![None, Some(Tok::s("")), Some(Tok::s("7")), Some(Tok::s("x")), Some(Tok(vec![0xff])), Some(Tok::s("11")), Some(Tok::s("a\n\nb"))]
}

fn set_env(vars: &[String], st: &[Option<Tok>]) -> Env {
    let mut env = Env::new();
    for (v, s) in vars.iter().zip(st.iter()) {
        match s {
            Some(t) => {
                std::env::set_var(v, t.os());
                env.insert(v.clone(), t.clone());
            }
            None => std::env::remove_var(v),
        }
    }
    env
}

fn items(seed: u64) -> Vec<(Named, Vec<String>)> {
    let mut out = vec![];
    let _ = seed;
    for kind in KINDS {
        for ty in [Ty::Os, Ty::U32] {
            if !kind.is_arg() && ty == Ty::U32 {
                continue;
            }
            // names + one variable; names + two variables; variable only
            let n1 = Names::both('a', "alpha").env(VA);
            let n2 = Names::both('a', "alpha").env(VA).env(VB);
            let n3 = Names::default().env(VA);
            out.push((Named { names: n1, kind, hidden: false, ty, adjacent: false, guarded: false }, vec![VA.to_string()]));
            out.push((Named { names: n2, kind, hidden: false, ty, adjacent: false, guarded: false }, vec![VA.to_string(), VB.to_string()]));
            out.push((Named { names: n3, kind, hidden: false, ty, adjacent: false, guarded: false }, vec![VA.to_string()]));
            if kind.is_arg() {
                // restricted to one-item spellings (`.adjacent()`): the variable is still the fallback
                out.push((Named { names: Names::both('a', "alpha").env(VA), kind, hidden: false, ty, adjacent: true, guarded: false }, vec![VA.to_string()]));
            }
            if ty == Ty::U32 {
                // guarded: the variable may hold a number the guard rejects
                out.push((Named { names: Names::both('a', "alpha").env(VA), kind, hidden: false, ty, adjacent: false, guarded: true }, vec![VA.to_string()]));
            }
        }
    }
    out
}

fn c18_alphabet(l: &Level) -> Vec<Tok> {
    let mut a = toks(&["v", "7", "x", "-z"]);
    if l.named.iter().any(|n| n.guarded) {
        a.push(Tok::s("--alpha=11"));
    }
    for n in &l.named {
        if let Some(s) = n.names.shorts.first() {
            a.push(Tok::s(&format!("-{}", s)));
        }
        if let Some(lg) = n.names.longs.first() {
            if n.kind.is_arg() {
                a.push(Tok::s(&format!("--{}=7", lg)));
                a.push(Tok::s(&format!("--{}=x", lg)));
            } else {
                a.push(Tok::s(&format!("--{}", lg)));
            }
        }
    }
    a.sort();
    a.dedup();
    a
}

fn check_help(u: &Unit, unit: &Value, p: &bpaf::OptionParser<Val>, env: &Env, ctx: &mut Ctx) {
    let r = run(p, &toks(&["--help"]));
    ctx.s.evaluations += 1;
    let mut problem = None;
    match &r {
        Outcome::Stdout { text, .. } => {
            for n in &u.level.named {
                if !n.names.has_name() || n.hidden {
                    continue;
                }
                if let Some(first) = n.names.envs.first() {
                    let want = match (n.kind.is_arg(), env.get(first)) {
                        (true, Some(v)) => format!("[env:{} = {:?}]", first, v.lossy()),
                        (true, None) => format!("[env:{}: N/A]", first),
                        (false, Some(_)) => format!("[env:{}: set]", first),
                        (false, None) => format!("[env:{}: not set]", first),
                    };
                    if !text.contains(&want) {
                        problem = Some(format!("help lacks {:?}", want));
                    }
                }
            }
            // whatever the variable holds, the rows after it are still there
            if !text.contains("-h, --help") {
                problem = Some("help lost the rows after the environment value".into());
            }
            for l in LOOKALIKES {
                if text.contains(&format!("env:{}", l)) && !text.contains(&format!("env:{}_", l)) && l != "BPAFMC_" {
                    problem = Some(format!("help mentions undeclared variable {}", l));
                }
            }
        }
        _ => problem = Some("help is not stdout".into()),
    }
    match problem {
        None => ctx.count("help-env-state-checked"),
        Some(pr) => {
            let mut sig = BTreeMap::new();
            sig.insert("clause".to_string(), "help-shows-declared-variable-state".to_string());
            ctx.violation(Violation { property: "C18".into(), rule: "help-shows-declared-variable-state".into(), sig, unit: unit.clone(), case: json!({"argv": ["--help"], "env": env, "help": true}), expected: "help shows the state of declared variables only".into(), observed: format!("{}: {}", pr, r.brief()), size: 1 });
        }
    }
}

fn run_states(u: &Unit, unit: &Value, ctx: &mut Ctx, only: Option<(&Env, &[Tok], bool)>) {
    let p = match build_checked(&opts_of(u)) {
        Ok(p) => p,
        Err(_) => return,
    };
    let mut model = Model::new(&u.level);
    model.help_aside = true;
    let alpha = c18_alphabet(&u.level);
    let sts = states();
    let sizes: Vec<usize> = u.vars.iter().map(|_| sts.len()).collect();
    let mut combos: Vec<Vec<usize>> = vec![];
    product(&sizes, &mut |ix| combos.push(ix.to_vec()));
    for l in LOOKALIKES {
        std::env::remove_var(l);
    }
    if let Some((env, argv, help)) = only {
        // replay one case
        for v in &u.vars {
            std::env::remove_var(v);
        }
        for (k, v) in env {
            std::env::set_var(k, v.os());
        }
        ctx.s.evaluations += 1;
        if help {
            check_help(u, unit, &p, env, ctx);
        } else {
            judge("C18", &u.level, unit, &model, &p, argv, env, ctx);
            lookalike_clause(u, unit, &p, argv, env, ctx);
        }
        return;
    }
    for c in combos.iter() {
        let st: Vec<Option<Tok>> = c.iter().map(|i| sts[*i].clone()).collect();
        let env = set_env(&u.vars, &st);
        // a fresh parser value per environment state: what an earlier run of the same value
        // leaves behind is the business of the history clause below, with a replayable history
        let p = match build_checked(&opts_of(u)) {
            Ok(p) => p,
            Err(_) => return,
        };
        ctx.count("environment-states");
        check_help(u, unit, &p, &env, ctx);
        tree(&alpha, u.len, &mut |argv| {
            ctx.begin_case(|| json!({"argv": argv, "env": env}));
            ctx.s.evaluations += 1;
            ctx.s.states += 1;
            if !argv.is_empty() {
                ctx.s.transitions += 1;
            }
            if !env.is_empty() {
                ctx.count("runs-with-a-declared-variable-set");
            }
            judge("C18", &u.level, unit, &model, &p, argv, &env, ctx);
            if argv.len() <= 1 {
                lookalike_clause(u, unit, &p, argv, &env, ctx);
            }
            true
        });
    }
    // history: the same parser value run under one state and then under another answers the
    // second run like a fresh value does (nothing read from the environment is remembered)
    let short: Vec<Vec<Tok>> = std::iter::once(vec![]).chain(alpha.iter().map(|t| vec![t.clone()])).collect();
    for c1 in combos.iter() {
        for c2 in combos.iter() {
            if c1 == c2 || (u.vars.len() > 1 && (c1[1] != 0 || c2[1] != 0)) {
                continue;
            }
            let st1: Vec<Option<Tok>> = c1.iter().map(|i| sts[*i].clone()).collect();
            let st2: Vec<Option<Tok>> = c2.iter().map(|i| sts[*i].clone()).collect();
            for argv in &short {
                history_case(u, unit, &st1, &st2, argv, ctx);
            }
        }
    }
    for v in &u.vars {
        std::env::remove_var(v);
    }
}

fn history_case(u: &Unit, unit: &Value, st1: &[Option<Tok>], st2: &[Option<Tok>], argv: &[Tok], ctx: &mut Ctx) {
    let (p, fresh) = match (build_checked(&opts_of(u)), build_checked(&opts_of(u))) {
        (Ok(a), Ok(b)) => (a, b),
        _ => return,
    };
    let env1 = set_env(&u.vars, st1);
    ctx.begin_case(|| json!({"argv": argv, "history": [st1, st2]}));
    ctx.s.evaluations += 1;
    let _ = run(&p, argv);
    let env2 = set_env(&u.vars, st2);
    let second = run(&p, argv);
    let want = run(&fresh, argv);
    if second == want {
        ctx.s.nontrivial += 1;
        ctx.count("second-runs-of-one-parser-value-compared");
    } else {
        let mut sig = BTreeMap::new();
        sig.insert("clause".to_string(), "environment-is-read-at-every-run".to_string());
        ctx.violation(Violation { property: "C18".into(), rule: "environment-is-read-at-every-run".into(), sig, unit: unit.clone(), case: json!({"argv": argv, "history": [st1, st2]}), expected: format!("after a run under {:?}, a run under {:?} gives what a fresh parser value gives: {}", env1, env2, want.brief()), observed: second.brief(), size: argv.len() * 1000 + 1 });
    }
}

/// setting undeclared look-alike variables never changes the outcome
fn lookalike_clause(u: &Unit, unit: &Value, p: &bpaf::OptionParser<Val>, argv: &[Tok], env: &Env, ctx: &mut Ctx) {
    let _ = u;
    let base = run(p, argv);
    for l in LOOKALIKES {
        std::env::set_var(l, "7");
    }
    let with = run(p, argv);
    for l in LOOKALIKES {
        std::env::remove_var(l);
    }
    ctx.s.evaluations += 1;
    if base != with {
        let mut sig = BTreeMap::new();
        sig.insert("clause".to_string(), "undeclared-variable".to_string());
        ctx.violation(Violation { property: "C18".into(), rule: "undeclared-variables-never-influence".into(), sig, unit: unit.clone(), case: json!({"argv": argv, "env": env}), expected: base.brief(), observed: with.brief(), size: argv.len() * 1000 });
    }
}

// ------------------------------------------------------------------------------------------
// an env-backed argument inside a repeated adjacent command: every occurrence of the command
// that does not write the argument takes the variable's value, wherever it stands in the chain
// ------------------------------------------------------------------------------------------
fn adjjob_opts() -> Opts {
    let level = P::Arg { names: Names::long("level").env(VA), ty: Ty::U32, adjacent: false, metavar: "N".into() };
    let job = P::Cmd { name: "job".into(), shorts: vec![], longs: vec![], inner: Box::new(Opts::new(P::Seq(vec![level]))), adjacent: true, help: None };
    Opts::new(P::Seq(vec![P::Switch(Names::short('s')), job.many()]))
}

/// Some(expected) for the lines of the regular form `[-s] (job [--level N | --level=N] [-s])*`
/// (one -s at most); None for every other line
fn adjjob_model(argv: &[Tok], var: Option<&str>) -> Option<Result<Val, ()>> {
    let w: Vec<String> = argv.iter().map(|t| t.lossy()).collect();
    let mut s = 0;
    let mut jobs: Vec<Option<u64>> = vec![];
    let mut i = 0;
    let num = |t: &str| t.parse::<u64>().ok();
    while i < w.len() {
        match w[i].as_str() {
            "-s" => {
                s += 1;
                i += 1;
            }
            "job" => {
                i += 1;
                if i < w.len() && w[i] == "--level" {
                    let n = num(w.get(i + 1)?)?;
                    jobs.push(Some(n));
                    i += 2;
                } else if i < w.len() && w[i].starts_with("--level=") {
                    jobs.push(Some(num(&w[i][8..])?));
                    i += 1;
                } else {
                    jobs.push(None);
                }
            }
            _ => return None,
        }
    }
    if s > 1 {
        return None;
    }
    let mut vals = vec![];
    for j in jobs {
        let n = match j {
            Some(n) => n,
            None => match var.map(|v| v.parse::<u64>()) {
                Some(Ok(n)) => n,
                _ => return Some(Err(())), // unset or not a number: the occurrence has no level
            },
        };
        vals.push(Val::Cmd("job".into(), Box::new(Val::T(vec![Val::N(n)]))));
    }
    Some(Ok(Val::T(vec![Val::B(s == 1), Val::L(vals)])))
}

fn run_adjjob(len: usize, unit: &Value, only: Option<(&Env, &[Tok])>, ctx: &mut Ctx) {
    // (a fresh parser value per environment state, see the history clause)
    let mut one = |p: &bpaf::OptionParser<Val>, argv: &[Tok], var: Option<&str>, ctx: &mut Ctx| {
        let mut env = Env::new();
        match var {
            Some(v) => {
                std::env::set_var(VA, v);
                env.insert(VA.to_string(), Tok::s(v));
            }
            None => std::env::remove_var(VA),
        }
        ctx.begin_case(|| json!({"argv": argv, "env": env}));
        ctx.s.evaluations += 1;
        ctx.s.states += 1;
        let m = match adjjob_model(argv, var) {
            Some(m) => m,
            None => {
                ctx.s.skipped += 1;
                return;
            }
        };
        let r = run(p, argv);
        let ok = match (&m, &r) {
            (Ok(a), Outcome::Value(b)) => a == b,
            (Err(()), Outcome::Stderr(t)) => !t.trim().is_empty(),
            _ => false,
        };
        if ok {
            ctx.s.nontrivial += 1;
            ctx.s.validated += 1;
            ctx.count("adjacent-command-chains-judged");
        } else {
            let mut sig = BTreeMap::new();
            sig.insert("clause".to_string(), "env-backed-argument-inside-a-repeated-adjacent-command".to_string());
            sig.insert("expected".to_string(), if m.is_ok() { "value" } else { "failure" }.to_string());
            sig.insert("observed".to_string(), r.class().to_string());
            ctx.violation(Violation { property: "C18".into(), rule: "variable-is-the-fallback-of-every-occurrence".into(), sig, unit: unit.clone(), case: json!({"argv": argv, "env": env}), expected: match &m { Ok(v) => format!("{:?}", v), Err(()) => "a failure with a message (an occurrence of the command has no level)".into() }, observed: r.brief(), size: argv.len() * 1000 });
        }
    };
    if let Some((env, argv)) = only {
        let var = env.get(VA).map(|t| t.lossy());
        if let Ok(p) = build_checked(&adjjob_opts()) {
            one(&p, argv, var.as_deref(), ctx);
        }
        std::env::remove_var(VA);
        return;
    }
    let alpha = toks(&["job", "--level", "3", "--level=4", "-s"]);
    for var in [None, Some("9"), Some("x")] {
        let p = match build_checked(&adjjob_opts()) {
            Ok(p) => p,
            Err(_) => return,
        };
        tree(&alpha, len, &mut |argv| {
            one(&p, argv, var, ctx);
            true
        });
    }
    std::env::remove_var(VA);
}

impl Check for C18 {
    fn id(&self) -> &'static str {
        "C18"
    }
    fn level(&self) -> &'static str {
        "model_checking"
    }
    fn units(&self, tier: Tier, seed: u64) -> Vec<Value> {
        let mut out = vec![];
        let neutral = Named { names: Names::both('s', "sw"), kind: Kind::Switch, hidden: false, ty: Ty::Os, adjacent: false, guarded: false };
        for (it, vars) in items(seed) {
            out.push(Unit { level: Level { named: vec![it.clone()], tail: Tail::None, version: None, usage_fallback: false }, len: tier.pick(4, 5), vars: vars.clone(), fallback_with: false });
            out.push(Unit { level: Level { named: vec![neutral.clone(), it.clone()], tail: Tail::Pos(vec![PosItem { kind: PosKind::Opt, strict: Strict::Any }]), version: None, usage_fallback: false }, len: tier.pick(3, 4), vars: vars.clone(), fallback_with: false });
        }
        // defaults written with fallback_with
        for (it, vars) in items(seed) {
            if it.kind == Kind::ArgFallback {
                out.push(Unit { level: Level { named: vec![it.clone()], tail: Tail::None, version: None, usage_fallback: false }, len: tier.pick(3, 4), vars: vars.clone(), fallback_with: true });
            }
        }
        // fallback_to_usage: a level whose items all come from the environment succeeds on an
        // empty line; the usage is printed only when the empty line fails
        for (it, vars) in items(seed).into_iter().step_by(2) {
            out.push(Unit { level: Level { named: vec![it.clone()], tail: Tail::None, version: None, usage_fallback: true }, len: tier.pick(2, 3), vars: vars.clone(), fallback_with: false });
        }
        // two env-backed items sharing nothing
        for k1 in [Kind::Switch, Kind::ArgReq, Kind::ArgMany] {
            for k2 in [Kind::ReqFlag, Kind::ArgOpt, Kind::ArgFallback] {
                let a = Named { names: Names::both('a', "alpha").env(VA), kind: k1, hidden: false, ty: Ty::Os, adjacent: false, guarded: false };
                let b = Named { names: Names::both('b', "beta").env(VB), kind: k2, hidden: false, ty: Ty::U32, adjacent: false, guarded: false };
                out.push(Unit { level: Level { named: vec![a, b], tail: Tail::None, version: None, usage_fallback: false }, len: tier.pick(3, 4), vars: vec![VA.to_string(), VB.to_string()], fallback_with: false });
            }
        }
        let mut out: Vec<Value> = out.into_iter().map(|u| serde_json::to_value(u).unwrap()).collect();
        out.push(json!({"adjjob": tier.pick(5, 6)}));
        out
    }
    fn run_unit(&self, unit: &Value, ctx: &mut Ctx) {
        if let Some(n) = unit.get("adjjob").and_then(|n| n.as_u64()) {
            run_adjjob(n as usize, unit, None, ctx);
            return;
        }
        let u: Unit = serde_json::from_value(unit.clone()).unwrap();
        run_states(&u, unit, ctx, None);
    }
    fn replay(&self, unit: &Value, case: &Value, ctx: &mut Ctx) {
        let argv: Vec<Tok> = serde_json::from_value(case["argv"].clone()).unwrap_or_default();
        let env: Env = serde_json::from_value(case["env"].clone()).unwrap_or_default();
        if let Some(n) = unit.get("adjjob").and_then(|n| n.as_u64()) {
            ctx.s.evaluations += 1;
            run_adjjob(n as usize, unit, Some((&env, &argv)), ctx);
            return;
        }
        let u: Unit = serde_json::from_value(unit.clone()).unwrap();
        if let Ok(h) = serde_json::from_value::<Vec<Vec<Option<Tok>>>>(case["history"].clone()) {
            if h.len() == 2 {
                for l in LOOKALIKES {
                    std::env::remove_var(l);
                }
                history_case(&u, unit, &h[0], &h[1], &argv, ctx);
                for v in &u.vars {
                    std::env::remove_var(v);
                }
                return;
            }
        }
        run_states(&u, unit, ctx, Some((&env, &argv, case["help"].as_bool() == Some(true))));
    }
    fn rule(&self) -> String {
        "definitions = every item kind (switch, flag, req_flag, count, argument required/optional/many/some/fallback/last; OsString, u32 and guarded u32) backed by {names + one variable, names + two variables, variable only}, alone and beside a neutral switch and an optional positional, plus pairs of env-backed items, plus the single items on levels with fallback_to_usage; configurations = every state {unset, empty, valid, invalid, non-UTF-8, number rejected by the guard of guarded items, value with a blank line} of every declared variable; inputs = every vector of the token tree; reference scanner with the extra rule 'no occurrence on the line -> one synthetic occurrence from the first set variable (flags: present iff set)'; plus: undeclared look-alike variables set/unset give identical outcomes, --help shows [env:NAME ...] state of declared variables only; state = (definition, environment, vector); plus an env-backed argument inside a repeated adjacent command: on every line of the regular form [-s] (job [--level N] [-s])* every occurrence without the argument takes the variable's value (unset / invalid: failure); arguments restricted with adjacent() (one-item spellings) are env-backed like the others; a fresh parser value per environment state plus a history clause (run under s1, then under s2: the second answer is a fresh value's); defaults also written fallback_with".into()
    }
    fn bounds(&self, tier: Tier) -> Value {
        json!({"vector_length": tier.pick("4 (single item), 3 (with neighbours)", "5 / 4"), "variables": "1..2 declared, 7 states each, 4 undeclared look-alikes"})
    }
    fn assumptions(&self) -> Vec<String> {
        vec!["workers are single-threaded processes, so set_var/remove_var between cases is sound".into()]
    }
}
