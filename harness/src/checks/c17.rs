//! C17 — derive and combinatoric APIs define the same parser.
//! `tools/gen_derive.py` writes a crate with, for every element of a bounded family, a
//! `#[derive(Bpaf)]` type and the hand-written parser the documentation prescribes; the crate is
//! compiled against /repo and its runner compares both on every vector of the token tree.
use crate::sup::*;
use serde::{Deserialize, Serialize};
use serde_json::{json, Value};
use std::collections::BTreeMap;

pub struct C17;

#[derive(Serialize, Deserialize, Clone)]
pub struct Unit {
    pub shard: usize,
    pub of: usize,
    pub len: usize,
}

fn crate_dir() -> String {
    format!("{}/derive_family", root())
}
fn bin() -> String {
    format!("{}/target/derive_family/release/derive_family", root())
}

fn run_bin(args: &[String]) -> Option<String> {
    let mut c = std::process::Command::new(bin());
    c.args(args);
    scrub_env(&mut c);
    let out = c.stdin(std::process::Stdio::null()).stderr(std::process::Stdio::null()).output().ok()?;
    if !out.status.success() {
        return None;
    }
    Some(String::from_utf8_lossy(&out.stdout).into_owned())
}

fn to_violation(unit: &Value, v: &Value) -> Violation {
    let mut sig = BTreeMap::new();
    let descr = v["descr"].as_str().unwrap_or("");
    // the kind of definition (first two words) and the rule are the cause signature
    sig.insert("kind".to_string(), descr.split(' ').take(2).collect::<Vec<_>>().join(" "));
    sig.insert("rule".to_string(), v["rule"].as_str().unwrap_or("").to_string());
    Violation {
        property: "C17".into(),
        rule: v["rule"].as_str().unwrap_or("equal").to_string(),
        sig,
        unit: unit.clone(),
        case: json!({"id": v["id"], "argv": v["argv"], "descr": v["descr"]}),
        expected: format!("hand-written parser: {}", v["manual"].as_str().unwrap_or("")),
        observed: format!("derived parser: {}", v["derived"].as_str().unwrap_or("")),
        size: v["argv"].as_array().map_or(0, |a| a.len()) * 1000 + descr.len(),
    }
}

impl Check for C17 {
    fn id(&self) -> &'static str {
        "C17"
    }
    fn level(&self) -> &'static str {
        "exploration"
    }
    fn units(&self, tier: Tier, _seed: u64) -> Vec<Value> {
        (0..16).map(|s| serde_json::to_value(Unit { shard: s, of: 16, len: tier.pick(3, 4) }).unwrap()).collect()
    }
    fn prepare(&self, tier: Tier) -> Result<(), String> {
        let seed = std::env::var("VERIF_SEED").ok().and_then(|s| s.parse::<u64>().ok()).unwrap_or(0);
        let gen = std::process::Command::new("python3").arg(format!("{}/tools/gen_derive.py", root())).arg(tier.name()).arg(seed.to_string()).arg(format!("{}/src/generated.rs", crate_dir())).output().map_err(|e| e.to_string())?;
        if !gen.status.success() {
            return Err(format!("generator failed: {}", String::from_utf8_lossy(&gen.stderr)));
        }
        let _ = std::fs::copy("/repo/Cargo.lock", format!("{}/Cargo.lock", crate_dir()));
        let b = std::process::Command::new("cargo").arg("build").arg("--release").arg("--offline").arg("--target-dir").arg(format!("{}/target/derive_family", root())).current_dir(crate_dir()).env("CARGO_NET_OFFLINE", "true").output().map_err(|e| e.to_string())?;
        if !b.status.success() {
            let err = String::from_utf8_lossy(&b.stderr);
            let tail: String = err.lines().filter(|l| l.starts_with("error")).take(10).collect::<Vec<_>>().join("\n");
            return Err(format!("the generated family does not compile against /repo:\n{}", tail));
        }
        Ok(())
    }
    fn run_unit(&self, unit: &Value, ctx: &mut Ctx) {
        let u: Unit = serde_json::from_value(unit.clone()).unwrap();
        let out = match run_bin(&[u.shard.to_string(), u.of.to_string(), u.len.to_string()]) {
            Some(o) => o,
            None => {
                eprintln!("derive_family runner failed");
                std::process::exit(3);
            }
        };
        for l in out.lines() {
            if let Some(v) = l.strip_prefix("V ") {
                if let Ok(v) = serde_json::from_str::<Value>(v) {
                    ctx.violation(to_violation(unit, &v));
                }
            } else if let Some(s) = l.strip_prefix("S ") {
                if let Ok(s) = serde_json::from_str::<Value>(s) {
                    ctx.s.evaluations += s["evaluations"].as_u64().unwrap_or(0);
                    ctx.s.nontrivial += s["accepted"].as_u64().unwrap_or(0) + s["help_requests"].as_u64().unwrap_or(0);
                    ctx.s.states += s["types"].as_u64().unwrap_or(0);
                    ctx.count_n("derived-types-compared", s["types"].as_u64().unwrap_or(0));
                    ctx.count_n("accepted-vectors", s["accepted"].as_u64().unwrap_or(0));
                    ctx.count_n("help-requests", s["help_requests"].as_u64().unwrap_or(0));
                    if u.shard == 0 {
                        ctx.sample(|| json!({"types_in_family": s["total_types"], "vector_length": u.len, "see": "derive_family/src/generated.rs (derive type T<i>, manual parser m<i>)"}));
                    }
                }
            }
        }
    }
    fn replay(&self, unit: &Value, case: &Value, ctx: &mut Ctx) {
        // needs the generated crate of the same tier/seed; rebuild is the caller's business
        let id = case["id"].as_u64().unwrap_or(0);
        let argv = case["argv"].clone();
        let len = argv.as_array().map_or(1, |a| a.len()).max(1);
        ctx.s.evaluations += 1;
        if !std::path::Path::new(&bin()).exists() {
            let _ = self.prepare(ctx.tier);
        }
        if let Some(out) = run_bin(&["0".into(), "1".into(), len.to_string(), id.to_string()]) {
            for l in out.lines() {
                if let Some(v) = l.strip_prefix("V ") {
                    if let Ok(v) = serde_json::from_str::<Value>(v) {
                        if v["argv"] == argv && v["descr"] == case["descr"] {
                            ctx.violation(to_violation(unit, &v));
                        }
                    }
                }
            }
        }
    }
    fn rule(&self) -> String {
        "generated family (tools/gen_derive.py, deterministic, identifier pool rotated by seed): single-field structs over {verbose, dry_run, v, r#type, file_name2} x {bool, (), String, u32, Option<String>, Option<u32>, Vec<String>, Vec<u32>} x about 20 annotation sets (none, doc comment, short, long, short+long, short('x'), long(\"custom\"), aliases, env, hide, argument(\"META\"), positional, positional(\"POS\"), fallback, switch, flag, req_flag, guard, some, explicit many/optional) in 10 top-level modes (parser, options, command, command(\"name\")+short, version, usage, fallback_to_usage, boxed, three-block doc comment, group doc comment); ordered pairs of 10 field specs; tuple structs; enums over all ordered pairs (and some triples) of 9 variant kinds (unit, documented, short, long+short, hidden, named fields, tuple, command with fields, unit command); every type comes with the hand-written parser the documentation prescribes, written by an independent implementation of the rules; both run on every vector of the token tree (all names, inline values valid and invalid, words, unknown flag, `--`, command names) and on --help / -h / --version / --help --help at every command path; equal values (Debug), equal failure class, equal help and error text; evaluation = one vector on both parsers; quick generates every third single-field spec and every second pair, thorough all of them; plus options(name) against batteries::cargo_helper with positional and named fields, and doc attributes without a leading space on fields and types; plus adjacent on a variant with fields, command(..) with a type-level fallback / fallback_with, a struct-level command with several aliases".into()
    }
    fn bounds(&self, tier: Tier) -> Value {
        json!({"types": tier.pick("about 290", "about 700"), "vector_length": tier.pick(3, 4)})
    }
    fn crash_is_violation(&self) -> bool {
        false
    }
}
