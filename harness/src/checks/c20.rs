//! C20 — optional cargo features do not change parsing.
//! The harness is built five times (bpaf with no features / autocomplete / everything /
//! dull-color / bright-color).  Every build walks the same definitions and vectors and emits
//! one digest per definition; all digests must agree.  On a mismatch the differing builds dump
//! the definition's outcomes and the first differing vector is reported.
use crate::conv::*;
use crate::def::*;
use crate::explore::*;
use crate::fam;
use crate::run::*;
use crate::sup::*;
use serde::{Deserialize, Serialize};
use serde_json::{json, Value};
use std::collections::BTreeMap;
use std::hash::{Hash, Hasher};

pub struct C20;

pub const ALTS: [(&str, &str); 4] = [("none", ""), ("ac", "ac"), ("dull", "dull"), ("bright", "bright")];

#[derive(Serialize, Deserialize, Clone)]
pub struct Unit {
    pub shard: usize,
    pub of: usize,
}

pub struct Job {
    pub opts: Opts,
    pub alpha: Vec<Tok>,
    pub len: usize,
    /// environment variables set while this job is observed (identically in every build)
    pub env: Vec<(&'static str, &'static str)>,
}

/// the definitions every build walks (no completion-only constructs)
pub fn jobs(tier: Tier, seed: u64) -> Vec<Job> {
    let mut out = vec![];
    let mut tails = vec![Tail::None];
    tails.extend(fam::pos_tails());
    tails.extend(fam::cmd_tails(seed, true, true));
    for l in fam::conventional(tier.pick(1, 2), &tails, seed) {
        let alpha = alphabet(&l, AlphaStyle::Compact);
        out.push(Job { opts: l.to_opts(), alpha, len: 3, env: vec![] });
    }
    if tier == Tier::Quick {
        for l in fam::conventional(2, &tails, seed + 1).into_iter().step_by(5) {
            let alpha = alphabet(&l, AlphaStyle::Compact);
            out.push(Job { opts: l.to_opts(), alpha, len: 2, env: vec![] });
        }
    }
    for o in crate::shape::shapes(1, seed).into_iter().chain(crate::shape::shapes(2, seed).into_iter().step_by(tier.pick(3, 1))) {
        let alpha = crate::shape::shape_alphabet(&o);
        out.push(Job { opts: o, alpha, len: 3, env: vec![] });
    }
    for d in crate::checks::c19::defs(4, false) {
        out.push(Job { opts: crate::checks::c19::to_opts(&d), alpha: crate::checks::c19::alphabet_for(d.g), len: tier.pick(3, 4), env: vec![] });
    }
    for v in crate::checks::c07::C07.units(Tier::Quick, seed).into_iter().step_by(tier.pick(7, 2)) {
        // (units of other kinds, e.g. the adjacent-command chains, are not definitions)
        let d: crate::checks::c07::Def = match serde_json::from_value(v) {
            Ok(d) => d,
            Err(_) => continue,
        };
        out.push(Job { opts: crate::checks::c07::to_opts(&d), alpha: crate::checks::c07::alphabet_for(&d), len: 3, env: vec![] });
    }
    // the same short name as a flag at one level and as an argument at another: clusters are
    // ambiguous and must be reported the same way by every build
    for (outer_arg, wrap) in [(false, false), (true, false), (false, true)] {
        let a_flag = P::Switch(Names::short('a'));
        let a_arg = P::arg(Names::short('a'), Ty::Os);
        let (outer, inner) = if outer_arg { (a_arg, a_flag) } else { (a_flag, a_arg) };
        let inner = if wrap { inner.opt() } else { inner };
        let cmd = P::cmd("cmd", Opts::new(P::Seq(vec![inner, P::Switch(Names::short('b'))])));
        let o = Opts::new(P::Seq(vec![if outer_arg { outer.opt() } else { outer }, cmd.opt()]));
        out.push(Job { opts: o, alpha: toks(&["-a", "-ab", "-aa", "-ba", "-b", "cmd", "v", "-a=v", "--"]), len: 3, env: vec![] });
    }
    // help texts with code examples (indented and fenced), paragraphs, hard line breaks: the
    // text splitter has docgen-only branches
    for text in ["intro\n\n```\ncode line\nsecond\n```\n\nafter the block", "intro\n\n    indented code\n    more code\n\nafter", "a\n\n```text\nx\n```", "one\n two\n\nthree ``` four", "```\nstarts with a fence\n```"] {
        let mut o = Opts::new(P::Seq(vec![P::Switch(Names::both('a', "alpha").help(text)), P::arg(Names::long("beta").help(text), Ty::Os).opt()]));
        o.cfg.descr = Some(DocSpec::plain(text));
        o.cfg.footer = Some(DocSpec::plain(text));
        out.push(Job { opts: o, alpha: toks(&["-a", "--beta=v", "--help", "--zz"]), len: 2, env: vec![] });
    }
    // non-ASCII names, metavariables and help texts (column arithmetic in the console renderer)
    for text in ["ФАЙЛ с описанием достаточно длинным чтобы строка была перенесена на следующую строку несколько раз подряд", "日本語のヘルプ", "é"] {
        let a = P::Arg { names: Names::both('ф', "файл").help(text), ty: Ty::Os, adjacent: false, metavar: "ФАЙЛ".into() };
        let mut o = Opts::new(P::Seq(vec![a.opt(), P::Switch(Names::long("plain").help("plain")), P::Pos { ty: Ty::Os, strict: Strict::Any, metavar: "ПУТЬ".into(), help: Some(DocSpec::plain(text)) }.opt()]));
        o.cfg.descr = Some(DocSpec::plain(text));
        out.push(Job { opts: o, alpha: toks(&["-ф", "--файл=v", "--plain", "--help", "w", "--zz"]), len: 2, env: vec![] });
    }
    // env-backed items with the variable unset / valid / invalid
    for (var_state, kind) in [("", 0), ("7", 0), ("x", 0), ("", 1), ("7", 1), ("x", 1), ("x", 2), ("7", 2)] {
        let arg = P::Arg { names: Names::long("level").env("BPAFMC_C20"), ty: Ty::U32, adjacent: false, metavar: "N".into() };
        let item = match kind {
            0 => arg.many(),
            1 => arg.opt(),
            _ => arg,
        };
        let o = Opts::new(P::Seq(vec![P::arg(Names::long("name"), Ty::Str).opt(), item, P::Switch(Names::short('s').env("BPAFMC_C20S"))]));
        let env = if var_state.is_empty() { vec![] } else { vec![("BPAFMC_C20", var_state)] };
        out.push(Job { opts: o, alpha: toks(&["--level=1", "--level", "2", "--name=bob", "-s", "--help"]), len: 3, env });
    }
    // rejected items that hold control characters (they are quoted back in the message: the
    // colour builds style that fragment)
    {
        let o = Opts::new(P::Seq(vec![P::arg(Names::both('p', "port"), Ty::U32).opt(), P::Switch(Names::long("verbose")), P::Guard(P::pos(Ty::U32).bx(), GuardK::Lt10).opt()]));
        out.push(Job { opts: o, alpha: toks(&["--port=8\t0", "--port", "80\t", "-p", "4\r", "\u{1b}[31m81\u{1b}[0m", "--verb\tose", "--verbose\r", "\u{7}", "11\u{7f}"]), len: 2, env: vec![] });
    }
    // env-backed flags with the variable set AND the flag typed (switch / req_flag / count, top
    // level and inside a command, also in a cluster)
    for k in 0..3 {
        let n = Names::both('s', "sw").env("BPAFMC_C20S");
        let item = match k {
            0 => P::Switch(n),
            1 => P::ReqFlag(n).opt(),
            _ => P::Count(P::ReqFlag(n).bx()),
        };
        let q = P::Switch(Names::short('q'));
        let o = Opts::new(P::Seq(vec![q.clone(), item.clone()]));
        let alpha = toks(&["-s", "--sw", "-q", "-qs", "-sq", "cmd", "--help"]);
        out.push(Job { opts: o, alpha: alpha.clone(), len: 3, env: vec![("BPAFMC_C20S", "1")] });
        let o = Opts::new(P::Seq(vec![q.clone(), P::cmd("cmd", Opts::new(P::Seq(vec![item])))]));
        out.push(Job { opts: o, alpha, len: 3, env: vec![("BPAFMC_C20S", "1")] });
    }
    // a sub-command under fallback as one branch of a choice: entering it and failing (or asking
    // for its help) must pick the same branch in every build
    {
        let build = P::cmd("build", Opts::new(P::Seq(vec![P::arg(Names::long("target"), Ty::Os), P::arg(Names::short('j'), Ty::U32).opt()])));
        let file = P::Pos { ty: Ty::Os, strict: Strict::Any, metavar: "FILE".into(), help: None };
        for order in 0..2 {
            for fw in [false, true] {
                let b = if fw { P::FallbackWith(build.clone().bx(), Ok(Val::s("dflt"))) } else { P::Fallback(build.clone().bx(), Val::s("dflt"), false) };
                let (x, y) = (P::Map(b.bx(), "b".into()), P::Map(file.clone().bx(), "f".into()));
                let alt = if order == 0 { P::Alt(vec![x, y]) } else { P::Alt(vec![y, x]) };
                let o = Opts::new(P::Seq(vec![P::Switch(Names::short('v')), alt]));
                out.push(Job { opts: o, alpha: toks(&["build", "--target=x", "-j", "2", "-v", "w", "--help"]), len: 4, env: vec![] });
            }
        }
    }
    for (_, o, _) in crate::checks::c10::odd_command_cases() {
        out.push(Job { opts: o, alpha: toks(&["sync", "-S", "other", "--dry", "-j", "x", "-q", "-v", "--jobs", "--help"]), len: 3, env: vec![] });
    }
    // wrappers that swallow a failure after the inner parser consumed something (catch, groups
    // that give up half way, non-strict positionals): the restore of the argument state sits
    // next to feature-gated completion bookkeeping
    for v in crate::checks::c06::C06.units(Tier::Quick, seed).into_iter().step_by(tier.pick(11, 3)) {
        if v.get("group").is_some() {
            continue;
        }
        let d: crate::checks::c06::Def = match serde_json::from_value(v) {
            Ok(d) => d,
            Err(_) => continue,
        };
        if d.prim == crate::checks::c06::Prim::EnvArg {
            continue;
        }
        out.push(Job { opts: crate::checks::c06::to_opts(&d), alpha: crate::checks::c06::alphabet_for(&d), len: 3, env: vec![] });
    }
    for (o, alpha) in crate::checks::c05::loose_groups() {
        out.push(Job { opts: o, alpha, len: tier.pick(3, 4), env: vec![] });
    }
    for (i, t) in crate::checks::c09::pos_tails().into_iter().enumerate() {
        if t.is_empty() || (tier == Tier::Quick && i % 3 != 0 && !t.iter().any(|p| p.strict == Strict::NonStrict)) {
            continue;
        }
        let l = fam::leaf(vec![fam::named(0, Kind::Switch, 1, seed)], Tail::Pos(t));
        let alpha = crate::checks::c09::c09_alphabet(&l).into_iter().filter(|t| t.0 != crate::checks::c09::RESERVED.as_bytes()).collect();
        out.push(Job { opts: l.to_opts(), alpha, len: tier.pick(3, 4), env: vec![] });
    }
    // adjacent commands (chained, behind parent items, holding adjacent groups): their scope
    // arithmetic sits right next to completion-only code
    for (o, _) in crate::checks::c19::group_shapes(seed) {
        let alpha = crate::checks::c19::group_alphabet(&o);
        out.push(Job { opts: o, alpha, len: tier.pick(4, 5), env: vec![] });
    }
    for cmd_wrap in [crate::checks::c19::W::Bare, crate::checks::c19::W::Opt, crate::checks::c19::W::Many] {
        for two_values in [false, true] {
            let d = crate::checks::c19::NestDef { cmd_wrap, two_values, inner_switch: true, len: 0 };
            out.push(Job { opts: crate::checks::c19::nest_opts(&d), alpha: crate::checks::c19::nest_alphabet(&d), len: tier.pick(4, 5), env: vec![] });
        }
    }
    // fallback_to_usage on every level of command trees (the "was the line empty" test)
    for l in crate::checks::c01::with_usage_fallback(fam::conventional(1, &fam::cmd_tails(seed, true, false), seed + 2)).into_iter().step_by(tier.pick(3, 1)) {
        let alpha = alphabet(&l, AlphaStyle::Compact);
        out.push(Job { opts: l.to_opts(), alpha, len: 3, env: vec![] });
    }
    // group titles made of multi-byte characters (the title is also turned into a completion
    // description in builds with autocomplete, on every evaluation)
    for title in ["Опции", "网络", "ネットワーク設定", "Настройки сети:", "Paramètres réseau"] {
        let g = P::GroupHelp(P::Seq(vec![P::Switch(Names::both('a', "alpha").help("first")), P::arg(Names::long("beta").help("second"), Ty::Os).opt()]).bx(), DocSpec::plain(title));
        let w = P::WithGroupHelp(P::Seq(vec![P::Switch(Names::short('c').help("third"))]).bx(), DocSpec::plain(title));
        out.push(Job { opts: Opts::new(P::Seq(vec![g, w])), alpha: toks(&["-a", "--beta=v", "-c", "--help", "--zz"]), len: 2, env: vec![] });
    }
    // the same command name in two branches, same one-line help, different descriptions: the
    // help listing de-duplicates them (the command item carries docgen-only data)
    for (da, db) in [("Build it\n\nfirst variant", "Build it\n\nsecond variant"), ("Build it", "Build it"), ("Build it\n\nsame", "Build it\n\nsame")] {
        let mk = |descr: &str, sw: char| {
            let mut inner = Opts::new(P::Seq(vec![P::ReqFlag(Names::short(sw))]));
            inner.cfg.descr = Some(DocSpec::plain(descr));
            P::Cmd { name: "build".into(), shorts: vec![], longs: vec![], inner: Box::new(inner), adjacent: false, help: None }
        };
        let o = Opts::new(P::Seq(vec![P::Switch(Names::short('v')), P::Alt(vec![mk(da, 'x'), mk(db, 'y')])]));
        out.push(Job { opts: o.clone(), alpha: toks(&["build", "-x", "-y", "-v", "--help"]), len: 3, env: vec![] });
        let g = Opts::new(P::Seq(vec![P::GroupHelp(o.p.clone().bx(), DocSpec::plain("Commands in a group"))]));
        out.push(Job { opts: g, alpha: toks(&["build", "-x", "-y", "--help"]), len: 2, env: vec![] });
    }
    for o in crate::docfam::doc_defs(2).into_iter().step_by(tier.pick(9, 2)) {
        let mut alpha = crate::shape::shape_alphabet(&o);
        alpha.retain(|t| t.0 != b"w");
        out.push(Job { opts: o, alpha, len: 2, env: vec![] });
    }
    out
}

/// every observation of one definition, as text lines (vector, outcome)
pub fn observe(j: &Job, f: &mut dyn FnMut(&[Tok], String)) {
    std::env::remove_var("BPAFMC_C20");
    std::env::remove_var("BPAFMC_C20S");
    for (k, v) in &j.env {
        std::env::set_var(k, v);
    }
    observe_inner(j, f);
    for (k, _) in &j.env {
        std::env::remove_var(k);
    }
}
fn observe_inner(j: &Job, f: &mut dyn FnMut(&[Tok], String)) {
    let p = match build_checked(&j.opts) {
        Ok(p) => p,
        Err(e) => {
            f(&[], format!("build panic {}", e));
            return;
        }
    };
    let mut alpha = j.alpha.clone();
    alpha.push(Tok::s("--help"));
    alpha.sort();
    alpha.dedup();
    tree(&alpha, j.len, &mut |argv| {
        let r = run_raw(&p, argv);
        let s = match r {
            Err(e) => format!("panic {}", e.split(" at ").next().unwrap_or("")),
            Ok(Ok(v)) => format!("value {:?}", v),
            Ok(Err(bpaf::ParseFailure::Stdout(d, full))) => {
                // monochrome text at the default width and a narrow / wide rendering
                format!("stdout {:?} | {:?} | {:?}", catch(|| d.monochrome(full)).unwrap_or_default(), catch(|| format!("{:40}", d)).unwrap_or_default(), catch(|| format!("{:100}", d)).unwrap_or_default())
            }
            Ok(Err(bpaf::ParseFailure::Stderr(d))) => format!("stderr {:?} | {:?}", catch(|| d.monochrome(true)).unwrap_or_default(), catch(|| format!("{:40}", d)).unwrap_or_default()),
            Ok(Err(bpaf::ParseFailure::Completion(c))) => format!("completion {:?}", c),
        };
        f(argv, s);
        true
    });
}

pub fn digest(j: &Job) -> (u64, u64) {
    let mut h = std::collections::hash_map::DefaultHasher::new();
    let mut n = 0u64;
    observe(j, &mut |argv, s| {
        argv.hash(&mut h);
        s.hash(&mut h);
        n += 1;
    });
    (h.finish(), n)
}

/// `bpafmc c20-digests <tier> <seed> <shard> <n>`: one line per definition of the shard
pub fn digests_main(tier: Tier, seed: u64, shard: usize, n: usize) {
    install_panic_hook();
    for (i, j) in jobs(tier, seed).iter().enumerate() {
        if i % n != shard {
            continue;
        }
        let (d, c) = digest(j);
        println!("D {} {:016x} {}", i, d, c);
    }
}
/// `bpafmc c20-dump <tier> <seed> <index>`: every observation of one definition
pub fn dump_main(tier: Tier, seed: u64, index: usize) {
    install_panic_hook();
    if let Some(j) = jobs(tier, seed).get(index) {
        observe(j, &mut |argv, s| {
            println!("{}\t{}", serde_json::to_string(argv).unwrap(), s.replace('\n', "\\n"));
        });
    }
}

fn alt_exe(name: &str) -> String {
    let base = format!("{}/target", root());
    format!("{}/alt-{}/release/bpafmc", base, name)
}

fn run_alt(name: &str, args: &[String]) -> Option<String> {
    let mut c = std::process::Command::new(alt_exe(name));
    c.args(args);
    scrub_env(&mut c);
    let out = c.stdin(std::process::Stdio::null()).stderr(std::process::Stdio::null()).output().ok()?;
    if !out.status.success() {
        return None;
    }
    Some(String::from_utf8_lossy(&out.stdout).into_owned())
}

impl Check for C20 {
    fn id(&self) -> &'static str {
        "C20"
    }
    fn level(&self) -> &'static str {
        "exploration"
    }
    fn units(&self, _tier: Tier, _seed: u64) -> Vec<Value> {
        (0..16).map(|s| serde_json::to_value(Unit { shard: s, of: 16 }).unwrap()).collect()
    }
    fn run_unit(&self, unit: &Value, ctx: &mut Ctx) {
        let u: Unit = serde_json::from_value(unit.clone()).unwrap();
        let js = jobs(ctx.tier, ctx.seed);
        // this build (all features)
        let mut mine: BTreeMap<usize, (u64, u64)> = BTreeMap::new();
        for (i, j) in js.iter().enumerate() {
            if i % u.of != u.shard {
                continue;
            }
            let d = digest(j);
            ctx.s.evaluations += d.1;
            ctx.s.states += 1;
            mine.insert(i, d);
        }
        for (name, _) in ALTS {
            let out = match run_alt(name, &["c20-digests".into(), ctx.tier.name().into(), ctx.seed.to_string(), u.shard.to_string(), u.of.to_string()]) {
                Some(o) => o,
                None => {
                    // machinery: the alternative build is missing or crashed
                    eprintln!("alternative build {} did not answer", name);
                    std::process::exit(3);
                }
            };
            let mut theirs: BTreeMap<usize, (u64, u64)> = BTreeMap::new();
            for l in out.lines() {
                let p: Vec<&str> = l.split(' ').collect();
                if p.len() == 4 && p[0] == "D" {
                    theirs.insert(p[1].parse().unwrap_or(usize::MAX), (u64::from_str_radix(p[2], 16).unwrap_or(0), p[3].parse().unwrap_or(0)));
                }
            }
            if theirs.len() != mine.len() {
                eprintln!("alternative build {} answered for {} definitions, expected {}", name, theirs.len(), mine.len());
                std::process::exit(3);
            }
            for (i, d) in &mine {
                ctx.s.evaluations += d.1;
                ctx.s.transitions += d.1;
                if theirs.get(i) == Some(d) {
                    ctx.s.nontrivial += d.1;
                    continue;
                }
                // find the first differing observation
                let mut full: Vec<(Vec<Tok>, String)> = vec![];
                observe(&js[*i], &mut |argv, s| full.push((argv.to_vec(), s.replace('\n', "\\n"))));
                let dump = run_alt(name, &["c20-dump".into(), ctx.tier.name().into(), ctx.seed.to_string(), i.to_string()]).unwrap_or_default();
                let mut reported = false;
                for (k, l) in dump.lines().enumerate() {
                    let (a, s) = l.split_once('\t').unwrap_or((l, ""));
                    if let Some((argv, mine_s)) = full.get(k) {
                        if serde_json::to_string(argv).unwrap() != a || mine_s != s {
                            let mut sig = BTreeMap::new();
                            sig.insert("build".to_string(), name.to_string());
                            sig.insert("class".to_string(), s.split(' ').next().unwrap_or("").to_string());
                            ctx.violation(Violation { property: "C20".into(), rule: "all-feature-sets-agree".into(), sig, unit: unit.clone(), case: json!({"definition": i, "tier": ctx.tier.name(), "seed": ctx.seed, "opts": js[*i].opts, "argv": argv, "build": name}), expected: format!("all features: {}", mine_s), observed: format!("{}: {}", name, s), size: argv.len() * 1000 });
                            reported = true;
                            break;
                        }
                    }
                }
                if !reported {
                    let mut sig = BTreeMap::new();
                    sig.insert("build".to_string(), name.to_string());
                    ctx.violation(Violation { property: "C20".into(), rule: "all-feature-sets-agree".into(), sig, unit: unit.clone(), case: json!({"definition": i, "tier": ctx.tier.name(), "seed": ctx.seed, "opts": js[*i].opts, "build": name}), expected: "identical outcome streams".into(), observed: "digest differs but no differing line was found (different number of observations)".into(), size: 0 });
                }
            }
        }
        if ctx.wants_sample() {
            if let Some((i, d)) = mine.iter().next() {
                ctx.sample(|| json!({"definition_index": i, "definition": js[*i].opts.p, "observations": d.1, "digest": format!("{:016x}", d.0), "builds_compared": ["all features", "none", "autocomplete", "dull-color", "bright-color"]}));
            }
        }
    }
    fn replay(&self, _unit: &Value, case: &Value, ctx: &mut Ctx) {
        // re-run one definition (identified by tier, seed and index) in this build and in the
        // named alternative build
        let idx = case["definition"].as_u64().unwrap_or(0) as usize;
        let name = case["build"].as_str().unwrap_or("none").to_string();
        let tier = Tier::parse(case["tier"].as_str().unwrap_or("quick"));
        let seed = case["seed"].as_u64().unwrap_or(0);
        ctx.s.evaluations += 1;
        let js = jobs(tier, seed);
        if idx >= js.len() {
            return;
        }
        let mut full: Vec<(Vec<Tok>, String)> = vec![];
        observe(&js[idx], &mut |argv, s| full.push((argv.to_vec(), s.replace('\n', "\\n"))));
        let dump = run_alt(&name, &["c20-dump".into(), tier.name().into(), seed.to_string(), idx.to_string()]).unwrap_or_default();
        let lines: Vec<&str> = dump.lines().collect();
        if lines.len() != full.len() {
            let mut sig = BTreeMap::new();
            sig.insert("build".to_string(), name.clone());
            ctx.violation(Violation { property: "C20".into(), rule: "all-feature-sets-agree".into(), sig, unit: Value::Null, case: case.clone(), expected: format!("{} observations", full.len()), observed: format!("{} observations", lines.len()), size: 0 });
            return;
        }
        for (k, l) in lines.iter().enumerate() {
            let (a, s) = l.split_once('\t').unwrap_or((l, ""));
            let (argv, mine_s) = &full[k];
            if serde_json::to_string(argv).unwrap() != a || mine_s != s {
                let mut sig = BTreeMap::new();
                sig.insert("build".to_string(), name.clone());
                ctx.violation(Violation { property: "C20".into(), rule: "all-feature-sets-agree".into(), sig, unit: Value::Null, case: case.clone(), expected: mine_s.clone(), observed: s.to_string(), size: 0 });
                return;
            }
        }
    }
    fn rule(&self) -> String {
        "configurations = the harness built against bpaf with {no features, autocomplete, autocomplete+docgen+batteries+derive, dull-color, bright-color}; definitions = conventional family (all kinds x all tails), general shapes, adjacent groups, alternatives, documented family (help texts, groups, hidden items) - nothing that needs the autocomplete API; inputs = every vector of the token tree (declared names, inline forms, words, `--`, unknown names, command names, --help) without completion markers; observation = value / stdout text (monochrome at the default width, Display at widths 40 and 100) / stderr text; every build digests the observations per definition and the digests of all five builds must be identical; on a mismatch both builds dump the definition and the first differing vector is reported; evaluation = one run in one build; plus env-backed flags typed while the variable is set, a command under fallback / fallback_with as a branch of a choice, the oddly placed commands of C10, rejected items holding control characters".into()
    }
    fn bounds(&self, tier: Tier) -> Value {
        json!({"builds": 5, "vector_length": "3 (2 for the 2-item conventional sample and the documented family)", "definitions": tier.pick("about 1500", "about 5000")})
    }
    fn crash_is_violation(&self) -> bool {
        false
    }
}
