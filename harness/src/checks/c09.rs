//! C09 — `--` ends option processing; strict positionals honour it.  Reference scanner (the
//! same one as C01: first `--` splits, right side is verbatim positional data, strictness
//! decides which side a positional may take from) on a family built around positionals.
use crate::checks::c01::judge;
use crate::conv::*;
use crate::def::*;
use crate::explore::*;
use crate::fam;
use crate::run::*;
use crate::sup::*;
use serde::{Deserialize, Serialize};
use serde_json::{json, Value};
use std::collections::BTreeMap;

pub struct C09;

#[derive(Serialize, Deserialize)]
pub struct Unit {
    pub level: Level,
    pub len: usize,
    /// an optional `literal("+ext").anywhere()` declared before the positionals: it takes the
    /// first `+ext` wherever it stands (also right of `--`), the positionals see the rest
    #[serde(default)]
    pub literal: bool,
    /// 1: every positional carries a help text attached after its strictness annotation;
    /// 2: non-strict positionals are hidden (`.non_strict().hide()`): neither changes parsing
    #[serde(default)]
    pub decor: u8,
}

const LIT: &str = "+ext";

fn unit_opts(u: &Unit) -> Opts {
    let mut o = u.level.to_opts();
    fn deco(p: &mut P, decor: u8) {
        match p {
            P::Pos { metavar, help, strict, .. } => {
                if decor == 1 {
                    *metavar = "POS_".into();
                    *help = Some(DocSpec::plain("positional help"));
                } else if decor == 2 && *strict == Strict::NonStrict {
                    let me = p.clone();
                    *p = P::Hide(me.bx());
                }
            }
            P::Cmd { inner, .. } => deco(&mut inner.p, decor),
            P::Seq(v) | P::Alt(v) | P::Choice(v) | P::Adj(v) => v.iter_mut().for_each(|x| deco(x, decor)),
            P::Optional(x, _) | P::Many(x, _) | P::Some_(x, _) | P::Fallback(x, _, _) => deco(x, decor),
            _ => {}
        }
    }
    if u.decor != 0 {
        deco(&mut o.p, u.decor);
    }
    if u.literal {
        if let P::Seq(v) = &mut o.p {
            v.insert(0, P::LiteralAnywhere(LIT.into()).opt());
        }
    }
    o
}

/// judge one vector; with the literal the reference scanner sees the line without the first
/// `+ext` and its value gets the literal's field in front
fn judge_unit(u: &Unit, unit: &Value, model: &Model, p: &bpaf::OptionParser<Val>, argv: &[Tok], env: &Env, ctx: &mut Ctx) {
    if !u.literal {
        judge("C09", &u.level, unit, model, p, argv, env, ctx);
        return;
    }
    let at = argv.iter().position(|t| t.0 == LIT.as_bytes());
    let mut rest = argv.to_vec();
    if let Some(i) = at {
        rest.remove(i);
    }
    let m = model.run(&rest, env);
    let r = run(p, argv);
    let ok = match (&m, &r) {
        (Out::Unspec(_), _) => {
            ctx.s.skipped += 1;
            return;
        }
        (Out::Ok(Val::T(fields)), Outcome::Value(Val::T(got))) => {
            let mut want = vec![if at.is_some() { Val::some(Val::U) } else { Val::No }];
            want.extend(fields.iter().cloned());
            want == *got
        }
        (Out::Fail, Outcome::Stderr(t)) => !t.trim().is_empty(),
        _ => false,
    };
    if ok {
        ctx.s.validated += 1;
        ctx.s.nontrivial += 1;
        ctx.count("lines-with-an-anywhere-literal-judged");
        return;
    }
    let mut sig = BTreeMap::new();
    sig.insert("def".to_string(), format!("literal-anywhere+{}", crate::checks::c01::sig_level(&u.level)));
    sig.insert("observed".to_string(), r.class().to_string());
    ctx.violation(Violation { property: "C09".into(), rule: "strictness-holds-beside-an-anywhere-item".into(), sig, unit: unit.clone(), case: json!({"argv": argv}), expected: format!("{:?} for the line without the first {}", m, LIT), observed: r.brief(), size: argv.len() * 1000 });
}

pub fn pos_tails() -> Vec<Vec<PosItem>> {
    let stricts = [Strict::Any, Strict::Strict, Strict::NonStrict];
    let kinds = [PosKind::Req, PosKind::Opt, PosKind::Many, PosKind::Some];
    let mut out: Vec<Vec<PosItem>> = vec![vec![]];
    // unambiguous suffixes: Req* then one of any kind, length 1..3
    for n in 1..=3usize {
        let mut idx = vec![0usize; n];
        loop {
            for k in kinds {
                let mut v: Vec<PosItem> = idx[..n - 1].iter().map(|s| PosItem { kind: PosKind::Req, strict: stricts[*s] }).collect();
                v.push(PosItem { kind: k, strict: stricts[idx[n - 1]] });
                out.push(v);
            }
            let mut j = n;
            loop {
                if j == 0 {
                    break;
                }
                j -= 1;
                if idx[j] + 1 < 3 {
                    idx[j] += 1;
                    for x in idx[j + 1..].iter_mut() {
                        *x = 0;
                    }
                    break;
                }
                if j == 0 {
                    j = usize::MAX;
                    break;
                }
            }
            if j == usize::MAX {
                break;
            }
        }
    }
    // non_strict variadic followed by strict items: unambiguous thanks to the separator
    for a in [PosKind::Opt, PosKind::Many, PosKind::Some, PosKind::Fallback] {
        for b in kinds {
            out.push(vec![PosItem { kind: a, strict: Strict::NonStrict }, PosItem { kind: b, strict: Strict::Strict }]);
        }
    }
    out
}

pub const RESERVED: &str = "--bpaf-complete-rev=8";

pub fn c09_alphabet(l: &Level) -> Vec<Tok> {
    // `--bpaf-complete-rev=8` is the parser's own reserved option: right of `--` it is a word
    // like any other (left of it the run turns into a completion request: not judged)
    // (the empty item is a word like any other)
    let mut out = toks(&["v", "w", "", "--", "-", "--help", "-z", RESERVED]);
    l.walk(
        &mut |lv, _| {
            for n in &lv.named {
                if let Some(s) = n.names.shorts.first() {
                    out.push(Tok::s(&format!("-{}", s)));
                }
                if let Some(lg) = n.names.longs.first() {
                    if n.kind.is_arg() {
                        out.push(Tok::s(&format!("--{}", lg)));
                        out.push(Tok::s(&format!("--{}=--", lg)));
                    }
                }
            }
            if let Tail::Cmds { cmds, .. } = &lv.tail {
                for c in cmds {
                    out.push(Tok::s(&c.name));
                }
            }
        },
        0,
    );
    out.sort();
    out.dedup();
    out.sort_by(|a, b| (a.0.len(), &a.0).cmp(&(b.0.len(), &b.0)));
    out
}

/// the same holds while completing: with the separator somewhere left of the word being typed
/// no option or command name may be offered (the data right of `--` is never a name)
#[cfg(not(feature = "full"))]
fn completion_clause(_u: &Unit, _unit: &Value, _p: &bpaf::OptionParser<Val>, _argv: &[Tok], _ctx: &mut Ctx) {}

#[cfg(feature = "full")]
fn completion_clause(u: &Unit, unit: &Value, p: &bpaf::OptionParser<Val>, argv: &[Tok], ctx: &mut Ctx) {
    let dd = match argv.iter().position(|t| t.0 == b"--") {
        Some(d) if d + 1 < argv.len() => d,
        _ => return,
    };
    if argv[..dd].iter().any(|t| t.0 == RESERVED.as_bytes()) || argv.iter().any(|t| t.utf8().is_none()) {
        return;
    }
    ctx.s.evaluations += 1;
    let text = match run_comp(p, argv, 0, None) {
        Outcome::Completion(t) => t,
        _ => return, // C14 judges "always completion output"
    };
    let typed = argv[argv.len() - 1].lossy();
    let rows = crate::checks::c14::parse_rows(&text, &typed);
    let mut names: Vec<String> = vec!["--help".into(), "-h".into()];
    u.level.walk(
        &mut |l, _| {
            for n in &l.named {
                names.extend(n.names.shorts.iter().map(|c| format!("-{}", c)));
                names.extend(n.names.longs.iter().map(|c| format!("--{}", c)));
            }
            if let Tail::Cmds { cmds, .. } = &l.tail {
                names.extend(cmds.iter().map(|c| c.name.clone()));
            }
        },
        0,
    );
    // a level whose last positional is repeated still expects positional data there: a typed word
    // that looks like a name is data too, the placeholder of the positional stays
    if let Tail::Pos(items) = &u.level.tail {
        if dd == 0 && u.decor != 2 && !u.literal && typed.starts_with('-') && items.last().map_or(false, |i| i.kind == PosKind::Many && i.strict != Strict::NonStrict) && rows.metas.is_empty() {
            let mut sig = BTreeMap::new();
            sig.insert("clause".to_string(), "completion-placeholder".to_string());
            ctx.violation(Violation { property: "C09".into(), rule: "completion-right-of-the-separator-is-positional".into(), sig, unit: unit.clone(), case: json!({"argv": argv, "completion": true}), expected: "the placeholder of the repeated positional among the candidates (a dash-looking word right of `--` is data)".into(), observed: format!("{:?}", text), size: argv.len() * 1000 });
            return;
        }
    }
    match rows.substs.iter().find(|sb| names.contains(sb) && **sb != typed) {
        None => ctx.count("completion-right-of-the-separator-judged"),
        Some(sb) => {
            let mut sig = BTreeMap::new();
            sig.insert("clause".to_string(), "completion".to_string());
            ctx.violation(Violation { property: "C09".into(), rule: "completion-offers-no-names-right-of-the-separator".into(), sig, unit: unit.clone(), case: json!({"argv": argv, "completion": true}), expected: "no option or command name among the candidates".into(), observed: format!("{} offered: {:?}", sb, text), size: argv.len() * 1000 });
        }
    }
}

// ------------------------------------------------------------------------------------------
// a repeated adjacent group of two positionals beside a switch: blocks may start on either side
// of `--`; right of it everything is a word
// ------------------------------------------------------------------------------------------
fn pospair_opts(strict_first: bool) -> Opts {
    let pos = |m: &str, strict: Strict| P::Pos { ty: Ty::Os, strict, metavar: m.into(), help: None };
    let g = P::Adj(vec![pos("A", if strict_first { Strict::Strict } else { Strict::Any }), pos("B", Strict::Any)]).many();
    Opts::new(P::Seq(vec![P::Switch(Names::short('v')), g]))
}

/// Some(Ok(value)) / Some(Err) where the outcome is prescribed, None elsewhere
fn pospair_model(strict_first: bool, argv: &[Tok]) -> Option<Result<Val, ()>> {
    let dd = argv.iter().position(|t| t.0 == b"--");
    let mut v = 0;
    // runs of neighbouring words; `-v` left of the separator and the separator itself end a run
    let mut runs: Vec<Vec<Tok>> = vec![vec![]];
    for (i, t) in argv.iter().enumerate() {
        let right = dd.map_or(false, |d| i > d);
        if Some(i) == dd {
            runs.push(vec![]);
        } else if !right && t.0 == b"-v" {
            v += 1;
            runs.push(vec![]);
        } else if !right && t.0.starts_with(b"-") && t.0 != b"-" {
            return Some(Err(())); // a foreign option left of the separator
        } else {
            if strict_first && !right {
                return None; // strict members left of the separator: not this family's business
            }
            runs.last_mut().unwrap().push(t.clone());
        }
    }
    if v > 1 {
        return Some(Err(()));
    }
    let words: usize = runs.iter().map(|r| r.len()).sum();
    if words % 2 == 1 {
        return Some(Err(()));
    }
    if runs.iter().any(|r| r.len() % 2 == 1) {
        return None; // a block would have to span a switch or the separator
    }
    let pairs: Vec<Val> = runs.iter().flat_map(|r| r.chunks(2).map(|c| Val::T(vec![Val::S(c[0].clone()), Val::S(c[1].clone())])).collect::<Vec<_>>()).collect();
    Some(Ok(Val::T(vec![Val::B(v == 1), Val::L(pairs)])))
}

fn run_pospair(strict_first: bool, len: usize, unit: &Value, only: Option<&[Tok]>, ctx: &mut Ctx) {
    let p = match build_checked(&pospair_opts(strict_first)) {
        Ok(p) => p,
        Err(_) => return,
    };
    let mut one = |argv: &[Tok], ctx: &mut Ctx| {
        ctx.begin_case(|| json!({"argv": argv}));
        ctx.s.evaluations += 1;
        ctx.s.states += 1;
        let m = match pospair_model(strict_first, argv) {
            Some(m) => m,
            None => {
                ctx.s.skipped += 1;
                return;
            }
        };
        let r = run(&p, argv);
        let ok = match (&m, &r) {
            (Ok(a), Outcome::Value(b)) => a == b,
            (Err(()), Outcome::Stderr(t)) => !t.trim().is_empty(),
            _ => false,
        };
        if ok {
            ctx.s.nontrivial += 1;
            ctx.s.validated += 1;
            ctx.count("adjacent-positional-pairs-judged");
        } else {
            let mut sig = BTreeMap::new();
            sig.insert("clause".to_string(), "adjacent-group-of-positionals-around-the-separator".to_string());
            sig.insert("observed".to_string(), r.class().to_string());
            ctx.violation(Violation { property: "C09".into(), rule: "separator-splits-the-line".into(), sig, unit: unit.clone(), case: json!({"argv": argv}), expected: match &m { Ok(v) => format!("{:?}", v), Err(()) => "a failure with a message".into() }, observed: r.brief(), size: argv.len() * 1000 });
        }
    };
    if let Some(argv) = only {
        one(argv, ctx);
        return;
    }
    let alpha = toks(&["a", "b", "--", "-v", "-x", "--help"]);
    tree(&alpha, len, &mut |argv| {
        // (--help left of the separator is C10's business)
        let dd = argv.iter().position(|t| t.0 == b"--").unwrap_or(argv.len());
        if !argv[..dd].iter().any(|t| t.0 == b"--help") {
            one(argv, ctx);
        }
        true
    });
}

impl Check for C09 {
    fn id(&self) -> &'static str {
        "C09"
    }
    fn level(&self) -> &'static str {
        "model_checking"
    }
    fn units(&self, tier: Tier, seed: u64) -> Vec<Value> {
        let mut out = vec![];
        for t in pos_tails() {
            let tail = if t.is_empty() { Tail::None } else { Tail::Pos(t.clone()) };
            let k = t.len();
            let len = tier.pick(if k >= 3 { 4 } else { 5 }, 6);
            // beside nothing / a switch / an argument
            out.push(Unit { level: fam::leaf(vec![], tail.clone()), len: len + tier.pick(1, 1), literal: false, decor: 0 });
            // decorations that must not change parsing: help attached after the strictness
            // annotation, hidden non-strict positionals
            out.push(Unit { level: fam::leaf(vec![], tail.clone()), len, literal: false, decor: 1 });
            if t.iter().any(|p| p.strict == Strict::NonStrict) {
                out.push(Unit { level: fam::leaf(vec![], tail.clone()), len, literal: false, decor: 2 });
            }
            // beside an item that may be taken from anywhere, also from the right of `--`
            out.push(Unit { level: fam::leaf(vec![], tail.clone()), len, literal: true, decor: 0 });
            out.push(Unit { level: fam::leaf(vec![fam::named(0, Kind::Switch, 1, seed)], tail.clone()), len, literal: false, decor: 0 });
            out.push(Unit { level: fam::leaf(vec![fam::named(1, Kind::ArgOpt, 0, seed)], tail.clone()), len, literal: false, decor: 0 });
            // below a sub-command
            let sub = fam::leaf(vec![], tail.clone());
            out.push(Unit { level: fam::leaf(vec![fam::named(0, Kind::Switch, 1, seed)], Tail::Cmds { cmds: vec![CmdDef { name: "cmd".into(), shorts: vec![], longs: vec![], level: sub }], wrap: CmdWrap::Required }), len, literal: false, decor: 0 });
        }
        let mut out: Vec<Value> = out.into_iter().map(|u| serde_json::to_value(u).unwrap()).collect();
        out.push(json!({"pospair": false, "len": tier.pick(6, 7)}));
        out.push(json!({"pospair": true, "len": tier.pick(6, 7)}));
        out
    }
    fn run_unit(&self, unit: &Value, ctx: &mut Ctx) {
        if let Some(b) = unit.get("pospair").and_then(|b| b.as_bool()) {
            run_pospair(b, unit["len"].as_u64().unwrap_or(5) as usize, unit, None, ctx);
            return;
        }
        let u: Unit = serde_json::from_value(unit.clone()).unwrap();
        let p = match build_checked(&unit_opts(&u)) {
            Ok(p) => p,
            Err(_) => return,
        };
        let model = Model::new(&u.level);
        let mut alpha = c09_alphabet(&u.level);
        if u.literal {
            alpha.retain(|t| t.0 != RESERVED.as_bytes() && t.0 != b"-z");
            alpha.push(Tok::s(LIT));
        }
        let env = Env::new();
        tree(&alpha, u.len, &mut |argv| {
            ctx.begin_case(|| json!({"argv": argv}));
            ctx.s.evaluations += 1;
            ctx.s.states += 1;
            if !argv.is_empty() {
                ctx.s.transitions += 1;
            }
            if argv.iter().any(|t| t.0 == b"--") {
                ctx.count("vectors-with-separator");
            }
            let dd = argv.iter().position(|t| t.0 == b"--").unwrap_or(argv.len());
            if argv[..dd].iter().any(|t| t.0 == RESERVED.as_bytes()) {
                ctx.s.skipped += 1;
                return true;
            }
            if argv[dd..].iter().any(|t| t.0 == RESERVED.as_bytes()) {
                ctx.count("reserved-option-name-right-of-separator");
            }
            judge_unit(&u, unit, &model, &p, argv, &env, ctx);
            completion_clause(&u, unit, &p, argv, ctx);
            // typed words that are a fresh prefix of every name / of the command names
            if argv.len() < u.len && argv.iter().any(|t| t.0 == b"--") {
                for tw in ["", "c"] {
                    let mut a2 = argv.to_vec();
                    a2.push(Tok::s(tw));
                    completion_clause(&u, unit, &p, &a2, ctx);
                }
            }
            true
        });
    }
    fn replay(&self, unit: &Value, case: &Value, ctx: &mut Ctx) {
        let argv: Vec<Tok> = serde_json::from_value(case["argv"].clone()).unwrap_or_default();
        if let Some(b) = unit.get("pospair").and_then(|b| b.as_bool()) {
            run_pospair(b, 0, unit, Some(&argv), ctx);
            return;
        }
        let u: Unit = serde_json::from_value(unit.clone()).unwrap();
        if let Ok(p) = build_checked(&unit_opts(&u)) {
            let model = Model::new(&u.level);
            ctx.s.evaluations += 1;
            if case["completion"].as_bool() == Some(true) {
                completion_clause(&u, unit, &p, &argv, ctx);
            } else {
                judge_unit(&u, unit, &model, &p, &argv, &Env::new(), ctx);
            }
        }
    }
    fn rule(&self) -> String {
        "definitions = every unambiguous positional suffix of 0..3 items (required* then required|optional|many|some; plus a non_strict optional / defaulted (fallback) / variadic positional followed by strict items) with every strictness assignment {unrestricted, strict, non_strict}, beside nothing / a switch / an optional argument / below a sub-command / positionals with help attached after the strictness annotation, hidden non-strict positionals, an optional literal +ext declared anywhere() (taken from either side of `--` before the positionals look); every vector of the token tree over {v, w, -, --, --help, -z, --bpaf-complete-rev=8 (the parser's own reserved option: judged right of `--` only, where it is data), declared names, --name, --name=--, command name}; judged by the reference scanner: first `--` splits, is never delivered, right side is verbatim positional data (so `-- --help` is data), left words go to unrestricted/non_strict positionals and right words to unrestricted/strict ones in order; `--name --` fails, `--name=--` delivers `--`; plus, in completion mode (revision 0), every vector with the separator left of the word being typed: no option or command name among the candidates; state = (definition, vector); completion right of the separator is also asked for the typed words `` and `c` (fresh prefixes of every name / of the command name); plus a repeated adjacent group of two positionals (first member unrestricted / strict) beside a switch: lines whose runs of neighbouring words all have even length give the pairs in order, an odd number of words fails".into()
    }
    fn bounds(&self, tier: Tier) -> Value {
        json!({"positionals": "0..3", "vector_length": tier.pick("5 (4 with three positionals; +1 for positional-only levels)", "6 (7 for positional-only levels)")})
    }
}
