//! C09 — `--` ends option processing; strict positionals honour it.  Reference scanner (the
//! same one as C01: first `--` splits, right side is verbatim positional data, strictness
//! decides which side a positional may take from) on a family built around positionals.
use crate::checks::c01::judge;
use crate::conv::*;
use crate::def::*;
use crate::explore::*;
use crate::fam;
use crate::run::*;
use crate::sup::*;
use serde::{Deserialize, Serialize};
use serde_json::{json, Value};

pub struct C09;

#[derive(Serialize, Deserialize)]
pub struct Unit {
    pub level: Level,
    pub len: usize,
}

pub fn pos_tails() -> Vec<Vec<PosItem>> {
    let stricts = [Strict::Any, Strict::Strict, Strict::NonStrict];
    let kinds = [PosKind::Req, PosKind::Opt, PosKind::Many, PosKind::Some];
    let mut out: Vec<Vec<PosItem>> = vec![vec![]];
    // unambiguous suffixes: Req* then one of any kind, length 1..3
    for n in 1..=3usize {
        let mut idx = vec![0usize; n];
        loop {
            for k in kinds {
                let mut v: Vec<PosItem> = idx[..n - 1].iter().map(|s| PosItem { kind: PosKind::Req, strict: stricts[*s] }).collect();
                v.push(PosItem { kind: k, strict: stricts[idx[n - 1]] });
                out.push(v);
            }
            let mut j = n;
            loop {
                if j == 0 {
                    break;
                }
                j -= 1;
                if idx[j] + 1 < 3 {
                    idx[j] += 1;
                    for x in idx[j + 1..].iter_mut() {
                        *x = 0;
                    }
                    break;
                }
                if j == 0 {
                    j = usize::MAX;
                    break;
                }
            }
            if j == usize::MAX {
                break;
            }
        }
    }
    // non_strict variadic followed by strict items: unambiguous thanks to the separator
    for a in [PosKind::Opt, PosKind::Many, PosKind::Some] {
        for b in kinds {
            out.push(vec![PosItem { kind: a, strict: Strict::NonStrict }, PosItem { kind: b, strict: Strict::Strict }]);
        }
    }
    out
}

pub const RESERVED: &str = "--bpaf-complete-rev=8";

pub fn c09_alphabet(l: &Level) -> Vec<Tok> {
    // `--bpaf-complete-rev=8` is the parser's own reserved option: right of `--` it is a word
    // like any other (left of it the run turns into a completion request: not judged)
    let mut out = toks(&["v", "w", "--", "-", "--help", "-z", RESERVED]);
    l.walk(
        &mut |lv, _| {
            for n in &lv.named {
                if let Some(s) = n.names.shorts.first() {
                    out.push(Tok::s(&format!("-{}", s)));
                }
                if let Some(lg) = n.names.longs.first() {
                    if n.kind.is_arg() {
                        out.push(Tok::s(&format!("--{}", lg)));
                        out.push(Tok::s(&format!("--{}=--", lg)));
                    }
                }
            }
            if let Tail::Cmds { cmds, .. } = &lv.tail {
                for c in cmds {
                    out.push(Tok::s(&c.name));
                }
            }
        },
        0,
    );
    out.sort();
    out.dedup();
    out.sort_by(|a, b| (a.0.len(), &a.0).cmp(&(b.0.len(), &b.0)));
    out
}

impl Check for C09 {
    fn id(&self) -> &'static str {
        "C09"
    }
    fn level(&self) -> &'static str {
        "model_checking"
    }
    fn units(&self, tier: Tier, seed: u64) -> Vec<Value> {
        let mut out = vec![];
        for t in pos_tails() {
            let tail = if t.is_empty() { Tail::None } else { Tail::Pos(t.clone()) };
            let k = t.len();
            let len = tier.pick(if k >= 3 { 4 } else { 5 }, 6);
            // beside nothing / a switch / an argument
            out.push(Unit { level: fam::leaf(vec![], tail.clone()), len: len + tier.pick(1, 1) });
            out.push(Unit { level: fam::leaf(vec![fam::named(0, Kind::Switch, 1, seed)], tail.clone()), len });
            out.push(Unit { level: fam::leaf(vec![fam::named(1, Kind::ArgOpt, 0, seed)], tail.clone()), len });
            // below a sub-command
            let sub = fam::leaf(vec![], tail.clone());
            out.push(Unit { level: fam::leaf(vec![fam::named(0, Kind::Switch, 1, seed)], Tail::Cmds { cmds: vec![CmdDef { name: "cmd".into(), shorts: vec![], longs: vec![], level: sub }], wrap: CmdWrap::Required }), len });
        }
        out.into_iter().map(|u| serde_json::to_value(u).unwrap()).collect()
    }
    fn run_unit(&self, unit: &Value, ctx: &mut Ctx) {
        let u: Unit = serde_json::from_value(unit.clone()).unwrap();
        let p = match build_checked(&u.level.to_opts()) {
            Ok(p) => p,
            Err(_) => return,
        };
        let model = Model::new(&u.level);
        let alpha = c09_alphabet(&u.level);
        let env = Env::new();
        tree(&alpha, u.len, &mut |argv| {
            ctx.begin_case(|| json!({"argv": argv}));
            ctx.s.evaluations += 1;
            ctx.s.states += 1;
            if !argv.is_empty() {
                ctx.s.transitions += 1;
            }
            if argv.iter().any(|t| t.0 == b"--") {
                ctx.count("vectors-with-separator");
            }
            let dd = argv.iter().position(|t| t.0 == b"--").unwrap_or(argv.len());
            if argv[..dd].iter().any(|t| t.0 == RESERVED.as_bytes()) {
                ctx.s.skipped += 1;
                return true;
            }
            if argv[dd..].iter().any(|t| t.0 == RESERVED.as_bytes()) {
                ctx.count("reserved-option-name-right-of-separator");
            }
            judge("C09", &u.level, unit, &model, &p, argv, &env, ctx);
            true
        });
    }
    fn replay(&self, unit: &Value, case: &Value, ctx: &mut Ctx) {
        let u: Unit = serde_json::from_value(unit.clone()).unwrap();
        let argv: Vec<Tok> = serde_json::from_value(case["argv"].clone()).unwrap_or_default();
        if let Ok(p) = build_checked(&u.level.to_opts()) {
            let model = Model::new(&u.level);
            ctx.s.evaluations += 1;
            judge("C09", &u.level, unit, &model, &p, &argv, &Env::new(), ctx);
        }
    }
    fn rule(&self) -> String {
        "definitions = every unambiguous positional suffix of 0..3 items (required* then required|optional|many|some; plus non_strict variadic followed by strict items) with every strictness assignment {unrestricted, strict, non_strict}, beside nothing / a switch / an optional argument / below a sub-command; every vector of the token tree over {v, w, -, --, --help, -z, --bpaf-complete-rev=8 (the parser's own reserved option: judged right of `--` only, where it is data), declared names, --name, --name=--, command name}; judged by the reference scanner: first `--` splits, is never delivered, right side is verbatim positional data (so `-- --help` is data), left words go to unrestricted/non_strict positionals and right words to unrestricted/strict ones in order; `--name --` fails, `--name=--` delivers `--`; state = (definition, vector)".into()
    }
    fn bounds(&self, tier: Tier) -> Value {
        json!({"positionals": "0..3", "vector_length": tier.pick("5 (4 with three positionals; +1 for positional-only levels)", "6 (7 for positional-only levels)")})
    }
}
