//! C10 — asking for help or version always wins and never runs the program.
//! Base vectors = the whole token tree; the help (or version) token is inserted as an item of
//! its own at every position left of the first `--`; the outcome must be stdout and must be
//! the help of the level that owns that position (deepest command entered to its left,
//! computed by a reference level-finder).
use crate::conv::*;
use crate::def::*;
use crate::explore::*;
use crate::fam;
use crate::run::*;
use crate::shape;
use crate::sup::*;
use serde::{Deserialize, Serialize};
use serde_json::{json, Value};
use std::collections::BTreeMap;

pub struct C10;

#[derive(Serialize, Deserialize)]
pub struct Unit {
    /// conventional level (with level finder) or a general shape (top-level positions only)
    pub level: Option<Level>,
    pub opts: Option<Opts>,
    pub len: usize,
    pub family: String,
    #[serde(default)]
    pub alpha: Vec<Tok>,
    /// custom help flag names (then `--help` itself is an ordinary unknown flag)
    #[serde(default)]
    pub custom_help: bool,
    /// only the sub-commands get the custom names, the top level keeps --help / -h
    #[serde(default)]
    pub custom_sub_only: bool,
}

/// reference level finder: the path (command indices) of the level that owns token position
/// `pos` of `argv`; None = outside the quantifier (unspecified lexing)
pub fn owner(root: &Level, model: &Model, argv: &[Tok], pos: usize) -> Option<Vec<usize>> {
    let (evs, src) = match model.lex(&argv[..pos]) {
        Lex::Ok(e, s) => (e, s),
        Lex::Unspec(_) => return None,
    };
    let _ = src;
    let mut path = vec![];
    let mut lvl = root;
    let mut anc: Vec<&Level> = vec![];
    let mut blocked = false;
    let mut used: Vec<usize> = vec![0; lvl.named.len()];
    let mut i = 0;
    while i < evs.len() {
        match &evs[i] {
            Ev::PosWord(_) => return None,
            Ev::Word(w) => {
                if !blocked {
                    if let Tail::Cmds { cmds, .. } = &lvl.tail {
                        if let Some(ci) = cmds.iter().position(|c| lvl.find_cmd(&w.0).map_or(false, |f| std::ptr::eq(f, c))) {
                            path.push(ci);
                            anc.push(lvl);
                            lvl = &cmds[ci].level;
                            used = vec![0; lvl.named.len()];
                            i += 1;
                            continue;
                        }
                    }
                }
                // a word the level cannot claim as a command; positionals claim words but then
                // there are no commands at this level, so blocking is harmless
                blocked = true;
                i += 1;
            }
            e => {
                let (ix, inline) = match e {
                    Ev::Long(n, v) => (lvl.find_named(None, Some(n.as_str())), v.is_some()),
                    Ev::Short(c, v) => (lvl.find_named(Some(*c), None), v.is_some()),
                    _ => unreachable!(),
                };
                match ix {
                    None => {
                        // an enclosing level's option right of a command name: the
                        // documentation does not fix who owns what follows
                        let (s, lg) = match e {
                            Ev::Long(n, _) => (None, Some(n.as_str())),
                            Ev::Short(c, _) => (Some(*c), None),
                            _ => unreachable!(),
                        };
                        if anc.iter().any(|a| a.find_named(s, lg).is_some()) {
                            return None;
                        }
                        blocked = true;
                        i += 1;
                    }
                    Some(ix) => {
                        let n = &lvl.named[ix];
                        if n.kind.single() && used[ix] >= 1 {
                            blocked = true;
                            i += 1;
                            continue;
                        }
                        if n.kind.is_arg() {
                            if inline {
                                used[ix] += 1;
                                i += 1;
                            } else if let Some(Ev::Word(_)) = evs.get(i + 1) {
                                used[ix] += 1;
                                i += 2;
                            } else {
                                // value missing (end of the left part, or the help token follows)
                                blocked = true;
                                i += 1;
                            }
                        } else if inline {
                            blocked = true;
                            i += 1;
                        } else {
                            used[ix] += 1;
                            i += 1;
                        }
                    }
                }
            }
        }
    }
    Some(path)
}

/// does some field of an enclosing level fail on this line? (classifier for known findings)
fn enclosing_field_fails(root: &Level, model: &Model, path: &[usize], argv: &[Tok]) -> bool {
    let evs = match model.lex(argv) {
        Lex::Ok(e, _) => e,
        _ => return false,
    };
    let mut lvl = root;
    for ci in path {
        for n in &lvl.named {
            let mut count = 0;
            let mut no_value = false;
            for (i, e) in evs.iter().enumerate() {
                let (hit, inline) = match e {
                    Ev::Long(l, v) => (n.names.longs.iter().any(|x| x == l), v.is_some()),
                    Ev::Short(c, v) => (n.names.shorts.contains(c), v.is_some()),
                    _ => (false, false),
                };
                if hit {
                    count += 1;
                    if n.kind.is_arg() && !inline && !matches!(evs.get(i + 1), Some(Ev::Word(_))) {
                        no_value = true;
                    }
                }
            }
            if (n.kind.required() && count == 0) || no_value {
                return true;
            }
        }
        if let Tail::Cmds { cmds, .. } = &lvl.tail {
            lvl = &cmds[*ci].level;
        }
    }
    false
}

/// the help text of the level at `path`, requested on a complete canonical line
fn canonical_help(root: &Level, p: &bpaf::OptionParser<Val>, path: &[usize], token: &str) -> Outcome {
    let mut argv = vec![];
    let mut lvl = root;
    for ci in path {
        for n in &lvl.named {
            if n.kind.required() {
                let name = match n.names.longs.first() {
                    Some(l) => format!("--{}", l),
                    None => format!("-{}", n.names.shorts[0]),
                };
                if n.kind.is_arg() {
                    argv.push(Tok::s(&format!("{}=v", name)));
                } else {
                    argv.push(Tok::s(&name));
                }
            }
        }
        if let Tail::Cmds { cmds, .. } = &lvl.tail {
            argv.push(Tok::s(&cmds[*ci].name));
            lvl = &cmds[*ci].level;
        }
    }
    argv.push(Tok::s(token));
    run(p, &argv)
}

fn level_at<'a>(root: &'a Level, path: &[usize]) -> &'a Level {
    let mut lvl = root;
    for ci in path {
        if let Tail::Cmds { cmds, .. } = &lvl.tail {
            lvl = &cmds[*ci].level;
        }
    }
    lvl
}

fn insert(argv: &[Tok], pos: usize, t: &str) -> Vec<Tok> {
    let mut v = argv[..pos].to_vec();
    v.push(Tok::s(t));
    v.extend_from_slice(&argv[pos..]);
    v
}

struct Env10<'a> {
    u: &'a Unit,
    unit: &'a Value,
    p: &'a bpaf::OptionParser<Val>,
    model: Option<Model<'a>>,
    help_cache: BTreeMap<(Vec<usize>, String), Outcome>,
    top_help: Option<Outcome>,
}

fn check_base(e: &mut Env10, argv: &[Tok], only: Option<(usize, &str)>, ctx: &mut Ctx) {
    let dd = argv.iter().position(|x| x.0 == b"--").unwrap_or(argv.len());
    let tokens: Vec<&str> = if e.u.custom_help { vec!["--ayuda", "-п", "--help", "-h"] } else { vec!["--help", "-h", "--version", "-V"] };
    for pos in 0..=dd {
        for token in &tokens {
            if let Some((p0, t0)) = only {
                if p0 != pos || t0 != *token {
                    continue;
                }
            }
            let v2 = insert(argv, pos, token);
            ctx.begin_case(|| json!({"argv": v2}));
            ctx.s.evaluations += 1;
            ctx.s.transitions += 1;
            let r = run(e.p, &v2);
            let is_version = *token == "--version" || *token == "-V";
            let mut is_plain_unknown = e.u.custom_help && !e.u.custom_sub_only && (*token == "--help" || *token == "-h");
            // who owns the position?
            let (path, expected): (Option<Vec<usize>>, Option<Outcome>) = match (&e.u.level, &e.model) {
                (Some(root), Some(model)) => match owner(root, model, argv, pos) {
                    None => {
                        ctx.s.skipped += 1;
                        continue;
                    }
                    Some(path) => {
                        let lvl = level_at(root, &path);
                        if e.u.custom_help && e.u.custom_sub_only {
                            // which names ask this level for help?
                            let level_is_custom = !path.is_empty();
                            let token_is_custom = *token == "--ayuda" || *token == "-п";
                            is_plain_unknown = level_is_custom != token_is_custom;
                        }
                        if is_version && lvl.version.is_none() {
                            (Some(path), None)
                        } else {
                            let key = (path.clone(), token.to_string());
                            let canon_token = match *token {
                                "-h" | "--help" | "--ayuda" | "-п" => {
                                    let level_is_custom = e.u.custom_help && (!e.u.custom_sub_only || !path.is_empty());
                                    if level_is_custom { "--ayuda" } else { "--help" }
                                }
                                "-V" => "--version",
                                t => t,
                            };
                            let exp = e.help_cache.entry(key).or_insert_with(|| canonical_help(root, e.p, &path, canon_token)).clone();
                            (Some(path), Some(exp))
                        }
                    }
                },
                _ => {
                    // general shape: judged only while no command name precedes the position
                    let t = shape::table(e.u.opts.as_ref().unwrap());
                    let cmd_left = argv[..pos].iter().any(|x| x.utf8().map_or(false, |s| t.cmds.iter().any(|c| c == s)));
                    if is_version {
                        (None, None)
                    } else if cmd_left && e.u.family == "adjacent-command" && {
                        // an adjacent command owns the items of its own parser (`-x`, once)
                        // that follow its name directly: help requested there describes the
                        // command - provided everything to the left was claimed (one `-v`
                        // by the top level, whole command blocks)
                        let (mut inside, mut x_seen, mut clean) = (false, false, true);
                        // (a word in front of a command name keeps the command from being
                        // entered: such lines are left to the weaker clause)
                        let t_has_v = t.flag_shorts.contains(&'v');
                        let mut top_seen: Vec<&[u8]> = vec![];
                        for t in &argv[..pos] {
                            let b: &[u8] = &t.0;
                            if b == b"cmd" {
                                inside = true;
                                x_seen = false;
                            } else if inside && b == b"-x" && !x_seen {
                                x_seen = true;
                            } else if b == b"-v" && t_has_v && !top_seen.contains(&b) {
                                inside = false;
                                top_seen.push(b);
                            } else {
                                clean = false;
                            }
                        }
                        clean && inside
                    } {
                        let key = (vec![0usize], "--help".to_string());
                        let p = e.p;
                        let exp = e.help_cache.entry(key).or_insert_with(|| run(p, &toks(&["cmd", "--help"]))).clone();
                        ctx.count("requests-inside-an-adjacent-command");
                        (Some(vec![0]), Some(exp))
                    } else if cmd_left {
                        (None, Some(Outcome::Stdout { text: String::new(), full: false }))
                    } else {
                        if e.top_help.is_none() {
                            e.top_help = Some(run(e.p, &toks(&[if e.u.custom_help { "--ayuda" } else { "--help" }])));
                        }
                        (Some(vec![]), e.top_help.clone())
                    }
                }
            };
            let ok = match (&expected, &r) {
                _ if is_plain_unknown => matches!(&r, Outcome::Stderr(t) if !t.trim().is_empty()),
                // version not configured at the owning level: an ordinary unknown flag
                (None, Outcome::Stderr(t)) => !t.trim().is_empty(),
                (None, _) => false,
                // the reference text itself must be the command's help (its usage line starts
                // with the command name, it lists the command's own item and no commands)
                (Some(Outcome::Stdout { text, .. }), _) if e.u.family == "adjacent-command" && path.as_ref().map_or(false, |p| !p.is_empty()) && !(text.starts_with("Usage: cmd ") && text.contains("-x") && !text.contains("COMMAND")) => false,
                (Some(Outcome::Stdout { text, .. }), Outcome::Stdout { text: t2, .. }) => {
                    // chained adjacent commands: the usage line lists every command entered so
                    // far (`Usage: cmd cmd [-x]`), the property only asks that the help is
                    // the command's - the repeated path is not held against it
                    let t2n = if e.u.family == "adjacent-command" { collapse_path(t2) } else { t2.clone() };
                    text.is_empty() || *text == t2n
                }
                _ => false,
            };
            if ok {
                // help also wins over a version request written anywhere on the same level
                if let (false, Some(root), Some(Outcome::Stdout { text, .. })) = (is_version || is_plain_unknown, &e.u.level, &expected) {
                    if root.version.is_some() && !matches!(root.tail, Tail::Cmds { .. }) && !text.is_empty() && !e.u.custom_help {
                        let dd2 = v2.iter().position(|x| x.0 == b"--").unwrap_or(v2.len());
                        for q in 0..=dd2 {
                            for vt in ["--version", "-V"] {
                                let v3 = insert(&v2, q, vt);
                                ctx.s.evaluations += 1;
                                ctx.s.transitions += 1;
                                let r3 = run(e.p, &v3);
                                let same = matches!(&r3, Outcome::Stdout { text: t3, .. } if t3 == text);
                                if same {
                                    ctx.count("help-and-version-together-judged");
                                } else {
                                    let mut sig = BTreeMap::new();
                                    sig.insert("family".to_string(), e.u.family.clone());
                                    sig.insert("token".to_string(), "help-and-version".to_string());
                                    sig.insert("observed".to_string(), r3.class().to_string());
                                    ctx.violation(Violation { property: "C10".into(), rule: "help-wins-over-version".into(), sig, unit: e.unit.clone(), case: json!({"base": argv, "pos": pos, "token": token, "argv": v3}), expected: format!("the help text, as without the version item: {}", text.chars().take(120).collect::<String>()), observed: r3.brief(), size: v3.len() * 1000 });
                                }
                            }
                        }
                    }
                }
                ctx.s.nontrivial += 1;
                ctx.count(if is_version { "version-requests-judged" } else { "help-requests-judged" });
                if path.as_ref().map_or(false, |p| !p.is_empty()) {
                    ctx.count("requests-inside-a-subcommand");
                }
                if ctx.wants_sample() && argv.len() >= 2 && path.as_ref().map_or(false, |p| !p.is_empty()) {
                    ctx.sample(|| json!({"family": e.u.family, "argv": v2, "owner_path": path, "outcome": r.brief().chars().take(120).collect::<String>()}));
                }
                continue;
            }
            let mut sig = BTreeMap::new();
            sig.insert("family".to_string(), e.u.family.clone());
            sig.insert("token".to_string(), if is_version { "version" } else { "help" }.to_string());
            sig.insert("help_level".to_string(), match &path {
                Some(p) if p.is_empty() => "top".to_string(),
                Some(_) => "inside-subcommand".to_string(),
                None => "unknown".to_string(),
            });
            if let (Some(root), Some(model), Some(pth)) = (&e.u.level, &e.model, &path) {
                sig.insert("enclosing_level".to_string(), if enclosing_field_fails(root, model, pth, argv) { "some-field-fails" } else { "complete" }.to_string());
            }
            sig.insert("observed".to_string(), match (&expected, &r) {
                (Some(Outcome::Stdout { .. }), Outcome::Stdout { .. }) => "stdout-of-another-level".to_string(),
                _ => r.class().to_string(),
            });
            ctx.violation(Violation {
                property: "C10".into(),
                rule: if expected.is_none() || is_plain_unknown { "unconfigured-version-is-an-unknown-flag" } else { "help-must-win" }.into(),
                sig,
                unit: e.unit.clone(),
                case: json!({"base": argv, "pos": pos, "token": token, "argv": v2}),
                expected: match &expected {
                    Some(o) => format!("stdout: the help/version of the level owning position {} ({:?}): {}", pos, path, o.brief().chars().take(160).collect::<String>()),
                    None => "stderr: version is not configured at this level".to_string(),
                },
                observed: r.brief(),
                size: v2.len() * 1000,
            });
        }
    }
}

fn collapse_path(t: &str) -> String {
    let mut t = t.to_string();
    while t.starts_with("Usage: cmd cmd ") {
        t = t.replacen("Usage: cmd cmd ", "Usage: cmd ", 1);
    }
    t
}

fn with_versions(mut l: Level, mode: usize) -> Level {
    // mode 0: none, 1: top only, 2: everywhere
    fn set(l: &mut Level, v: bool) {
        l.version = if v { Some("1.2.3".into()) } else { None };
    }
    match mode {
        0 => {}
        1 => set(&mut l, true),
        _ => {
            fn all(l: &mut Level) {
                l.version = Some("1.2.3".into());
                if let Tail::Cmds { cmds, .. } = &mut l.tail {
                    for c in cmds {
                        all(&mut c.level);
                    }
                }
            }
            all(&mut l);
        }
    }
    l
}

// ------------------------------------------------------------------------------------------
// commands in unusual places: inside an optional member of a group that is one branch of an
// alternative; wrapped in `fallback` as the later branch beside a valued item.  Help requested
// after the command name is the command's, whatever else on the line is malformed.
// ------------------------------------------------------------------------------------------
pub fn odd_command_cases() -> Vec<(&'static str, Opts, Vec<Vec<&'static str>>)> {
    let sync = |name: &str| {
        let mut inner = Opts::new(P::Seq(vec![P::arg(Names::both('j', "jobs-inner"), Ty::U32).opt(), P::Switch(Names::long("dry"))]));
        inner.cfg.descr = Some(DocSpec::plain("the command itself"));
        P::cmd(name, inner)
    };
    let work = P::Seq(vec![P::Switch(Names::both('v', "verbose")), sync("sync").opt()]);
    let idle = P::Seq(vec![P::Switch(Names::both('q', "quiet"))]);
    let a = Opts::new(P::Seq(vec![P::Alt(vec![P::Map(work.bx(), "work".into()), P::Map(idle.bx(), "idle".into())])]));
    let jobs = P::arg(Names::long("jobs"), Ty::U32);
    let b = Opts::new(P::Seq(vec![P::Alt(vec![P::Map(jobs.bx(), "j".into()), P::Map(sync("sync").fallback(Val::s("none")).bx(), "c".into())])]));
    // a flag-looking command name (pacman style `-S`)
    let c = Opts::new(P::Seq(vec![P::Switch(Names::both('q', "quiet")), P::Alt(vec![sync("-S"), sync("--sync-all")])]));
    // `.last()` / `.many()` / `.optional()` applied to a choice of commands
    let d = Opts::new(P::Seq(vec![P::Switch(Names::both('q', "quiet")), P::Last(P::Alt(vec![sync("sync"), sync("other")]).bx())]));
    let e = Opts::new(P::Seq(vec![P::Switch(Names::both('q', "quiet")), P::Alt(vec![sync("sync"), sync("other")]).opt()]));
    let f = Opts::new(P::Seq(vec![P::Switch(Names::both('q', "quiet")), P::Collect(P::Alt(vec![sync("sync"), sync("other")]).bx(), false)]));
    // a hidden command (alone and among visible siblings) still answers for itself; so does a
    // command under some(..)
    let g = Opts::new(P::Seq(vec![P::Switch(Names::both('q', "quiet")), P::Hide(sync("sync").bx())]));
    let h = Opts::new(P::Seq(vec![P::Switch(Names::both('q', "quiet")), P::Alt(vec![sync("other"), P::Hide(sync("sync").bx())])]));
    let i = Opts::new(P::Seq(vec![P::Switch(Names::both('q', "quiet")), P::Some_(P::Alt(vec![sync("sync"), sync("other")]).bx(), false)]));
    // an adjacent command behind a choice of two flags, both given: the one the choice did not
    // take stands between the command name and the help flag
    let j = {
        let mut inner = Opts::new(P::Seq(vec![P::arg(Names::both('j', "jobs-inner"), Ty::U32), P::Switch(Names::long("dry"))]));
        inner.cfg.descr = Some(DocSpec::plain("the command itself"));
        let cmd = P::Cmd { name: "sync".into(), shorts: vec![], longs: vec![], inner: Box::new(inner), adjacent: true, help: None };
        Opts::new(P::Seq(vec![P::Alt(vec![P::Map(P::ReqFlag(Names::both('q', "quiet")).bx(), "q".into()), P::Map(P::ReqFlag(Names::short('b')).bx(), "b".into())]), cmd]))
    };
    vec![
        ("last-over-a-choice-of-commands", d, vec![vec!["sync", "--help"], vec!["sync", "--dry", "-h"], vec!["-q", "sync", "--help"], vec!["sync", "--bogus", "--help"]]),
        ("optional-over-a-choice-of-commands", e, vec![vec!["sync", "--help"], vec!["sync", "--dry", "-h"], vec!["-q", "sync", "--help"], vec!["sync", "-j", "x", "--help"]]),
        ("collect-over-a-choice-of-commands", f, vec![vec!["sync", "--help"], vec!["-q", "sync", "--dry", "--help"]]),
        ("flag-looking-command-name", c, vec![vec!["-S", "--help"], vec!["-S", "--dry", "--help"], vec!["-S", "--bogus", "-h"], vec!["--sync-all", "--help"], vec!["-q", "-S", "-h"]]),
        ("command-in-optional-member-of-an-alternative-group", a, vec![vec!["sync", "--help"], vec!["sync", "-h"], vec!["-v", "sync", "--help"], vec!["sync", "--dry", "--help"], vec!["sync", "-j", "x", "--help"], vec!["sync", "--bogus", "--help"]]),
        ("command-under-fallback-beside-a-valued-alternative", b, vec![vec!["sync", "--help"], vec!["sync", "--help", "--jobs", "many"], vec!["sync", "--jobs", "many", "--help"], vec!["sync", "--help", "--jobs"], vec!["sync", "--dry", "-h"]]),
        ("hidden-command", g, vec![vec!["sync", "--help"], vec!["-q", "sync", "-h"], vec!["sync", "--dry", "--help"], vec!["sync", "--bogus", "--help"]]),
        ("hidden-command-among-siblings", h, vec![vec!["sync", "--help"], vec!["-q", "sync", "--dry", "-h"]]),
        ("adjacent-command-behind-a-choice-with-both-branches-given", j, vec![vec!["-b", "sync", "-q", "--help"], vec!["-b", "sync", "-q", "--dry", "--help"], vec!["-q", "sync", "-b", "-h"], vec!["-b", "sync", "--help"]]),
        ("some-over-a-choice-of-commands", i, vec![vec!["sync", "--help"], vec!["sync", "--dry", "-h"], vec!["-q", "sync", "--help"], vec!["sync", "-j", "x", "--help"]]),
    ]
}

pub fn run_odd_command(prop: &str, which: usize, unit: &Value, only: Option<&[Tok]>, ctx: &mut Ctx) {
    let (name, o, lines) = odd_command_cases().swap_remove(which);
    let p = match build_checked(&o) {
        Ok(p) => p,
        Err(_) => return,
    };
    for l in lines {
        let argv: Vec<Tok> = l.iter().map(|s| Tok::s(s)).collect();
        if let Some(x) = only {
            if x != argv.as_slice() {
                continue;
            }
        }
        ctx.begin_case(|| json!({"argv": argv}));
        ctx.s.evaluations += 1;
        ctx.s.transitions += 1;
        let r = run(&p, &argv);
        let ok = matches!(&r, Outcome::Stdout { text, .. } if ["Usage: sync", "Usage: -S", "Usage: --sync-all"].iter().any(|u| text.starts_with(u) || text.contains(&format!("\n{}", u))) && text.contains("--dry") && !text.contains("--quiet"));
        if ok {
            ctx.s.nontrivial += 1;
            ctx.count("help-after-an-oddly-placed-command");
        } else {
            let mut sig = BTreeMap::new();
            sig.insert("family".to_string(), name.to_string());
            sig.insert("observed".to_string(), r.class().to_string());
            ctx.violation(Violation { property: prop.into(), rule: "help-after-the-name-describes-the-subcommand".into(), sig, unit: unit.clone(), case: json!({"argv": argv, "odd": which}), expected: "stdout: the help of `sync` (usage line starts with the command, lists --dry, not --quiet)".into(), observed: r.brief(), size: argv.len() * 1000 });
        }
    }
}

// ------------------------------------------------------------------------------------------
// help written behind an adjacent command and an item of the enclosing level (`c1 -v --help`):
// which level answers is open (the item ends the command's block), but the help flag is on the
// line, left of `--`: the outcome is some help on stdout, never a failure
// ------------------------------------------------------------------------------------------
fn run_adjacent_gap(which: usize, unit: &Value, only: Option<&[Tok]>, ctx: &mut Ctx) {
    let inner = if which == 0 { vec![P::ReqFlag(Names::short('x'))] } else { vec![P::Switch(Names::short('x'))] };
    let c1 = P::Cmd { name: "c1".into(), shorts: vec![], longs: vec![], inner: Box::new(Opts::new(P::Seq(inner))), adjacent: true, help: None };
    let o = Opts::new(P::Seq(vec![P::Switch(Names::short('v')), c1]));
    let p = match build_checked(&o) {
        Ok(p) => p,
        Err(_) => return,
    };
    for l in [vec!["c1", "-v", "--help"], vec!["c1", "-v", "-h"], vec!["c1", "-v", "-x", "--help"], vec!["c1", "-x", "-v", "--help"], vec!["c1", "-v", "--help", "-x"]] {
        let argv: Vec<Tok> = l.iter().map(|s| Tok::s(s)).collect();
        if only.map_or(false, |o| o != argv.as_slice()) {
            continue;
        }
        ctx.begin_case(|| json!({"argv": argv}));
        ctx.s.evaluations += 1;
        ctx.s.transitions += 1;
        let r = run(&p, &argv);
        if matches!(&r, Outcome::Stdout { text, .. } if text.contains("Usage")) {
            ctx.s.nontrivial += 1;
            ctx.count("help-behind-an-adjacent-command-and-an-outer-item");
        } else {
            let mut sig = BTreeMap::new();
            sig.insert("family".to_string(), "adjacent-command-then-outer-item-then-help".to_string());
            sig.insert("inner".to_string(), if which == 0 { "required-item" } else { "optional-item" }.to_string());
            sig.insert("observed".to_string(), r.class().to_string());
            ctx.violation(Violation { property: "C10".into(), rule: "help-flag-on-the-line-gives-help".into(), sig, unit: unit.clone(), case: json!({"argv": argv}), expected: "stdout: a help text (of the command or of the enclosing level)".into(), observed: r.brief(), size: argv.len() * 1000 });
        }
    }
}

impl Check for C10 {
    fn id(&self) -> &'static str {
        "C10"
    }
    fn level(&self) -> &'static str {
        "exploration"
    }
    fn units(&self, tier: Tier, seed: u64) -> Vec<Value> {
        let mut out = vec![];
        let mut tails = vec![Tail::None];
        tails.extend(fam::pos_tails());
        tails.extend(fam::cmd_tails(seed, true, true));
        let mut j = 0;
        for l in fam::conventional(1, &tails, seed) {
            j += 1;
            let l = with_versions(l, j % 3);
            let alpha = alphabet(&l, AlphaStyle::Compact);
            out.push(Unit { level: Some(l), opts: None, len: tier.pick(3, 4), family: "conventional".into(), alpha, custom_help: false, custom_sub_only: false });
        }
        let ctails = fam::cmd_tails(seed, true, false);
        for l in fam::conventional(2, &ctails, seed + 1) {
            j += 1;
            if tier == Tier::Quick && j % 2 == 0 {
                continue;
            }
            let l = with_versions(l, j % 3);
            let alpha = alphabet(&l, AlphaStyle::Compact);
            out.push(Unit { level: Some(l), opts: None, len: tier.pick(2, 3), family: "conventional".into(), alpha, custom_help: false, custom_sub_only: false });
        }
        for l in crate::checks::c08::trees(seed) {
            j += 1;
            if tier == Tier::Quick && j % 3 != 0 {
                continue;
            }
            let l = with_versions(l, j % 3);
            let alpha = alphabet(&l, AlphaStyle::Compact);
            out.push(Unit { level: Some(l), opts: None, len: tier.pick(2, 3), family: "command-trees".into(), alpha, custom_help: j % 5 == 0 || j % 7 == 0, custom_sub_only: j % 7 == 0 });
        }
        for o in shape::shapes(1, seed).into_iter().chain(shape::shapes(2, seed)) {
            j += 1;
            if tier == Tier::Quick && j % 2 == 0 {
                continue;
            }
            out.push(Unit { level: None, opts: Some(o), len: tier.pick(2, 3), family: "shapes".into(), alpha: vec![], custom_help: false, custom_sub_only: false });
        }
        for (o, f) in crate::checks::c19::group_shapes(seed) {
            let alpha = crate::checks::c19::group_alphabet(&o);
            out.push(Unit { level: None, opts: Some(o), len: tier.pick(3, 4), family: f, alpha, custom_help: false, custom_sub_only: false });
        }
        // repeated groups and choices that hold a positional beside a named item (the help
        // generator walks repeated content with its own bookkeeping)
        {
            let v = P::Switch(Names::short('v'));
            let pos = || P::pos(Ty::Os);
            let name = || P::arg(Names::long("name"), Ty::Os);
            let flag = || P::ReqFlag(Names::short('f'));
            let defs = vec![
                P::Seq(vec![v.clone(), P::Some_(P::Seq(vec![name(), pos()]).bx(), false)]),
                P::Seq(vec![v.clone(), P::Seq(vec![name(), pos()]).many()]),
                P::Seq(vec![v.clone(), P::Alt(vec![P::Map(pos().bx(), "p".into()), P::Map(flag().bx(), "f".into())]).many()]),
                P::Seq(vec![v.clone(), P::Collect(P::Seq(vec![flag(), pos()]).bx(), false)]),
                P::Seq(vec![v.clone(), P::cmd("c", Opts::new(P::Seq(vec![P::Alt(vec![P::Map(pos().bx(), "p".into()), P::Map(flag().bx(), "f".into())]).many()])))]),
                P::Seq(vec![v.clone(), P::cmd("c", Opts::new(P::Seq(vec![P::Last(P::Seq(vec![name(), pos()]).bx())]))).opt()]),
            ];
            for d in defs {
                out.push(Unit { level: None, opts: Some(Opts::new(d)), len: tier.pick(3, 4), family: "repeated-group-with-positional".into(), alpha: toks(&["x", "--name", "--name=y", "-f", "-v", "c"]), custom_help: false, custom_sub_only: false });
            }
        }
        // switches written with an attached value (`--verbose=1`, `-v=1`, `--quiet=`): the value is
        // left over after an otherwise successful parse; help and version still win
        {
            let level = |inner: bool| {
                let _ = inner;
                Opts::new(P::Seq(vec![P::Switch(Names::both('v', "verbose")), P::Switch(Names::both('q', "quiet")), P::arg(Names::short('n'), Ty::Os).opt()]))
            };
            let alpha = toks(&["--verbose=1", "-v=1", "--quiet=", "-q", "-n", "x"]);
            out.push(Unit { level: None, opts: Some(level(false)), len: tier.pick(3, 4), family: "switch-with-a-value".into(), alpha: alpha.clone(), custom_help: false, custom_sub_only: false });
            let mut a2 = alpha.clone();
            a2.push(Tok::s("run"));
            let o = Opts::new(P::Seq(vec![P::Switch(Names::short('o')), P::cmd("run", level(true))]));
            out.push(Unit { level: None, opts: Some(o), len: tier.pick(3, 4), family: "switch-with-a-value".into(), alpha: a2, custom_help: false, custom_sub_only: false });
        }
        let mut out: Vec<Value> = out.into_iter().map(|u| serde_json::to_value(u).unwrap()).collect();
        for k in 0..odd_command_cases().len() {
            out.push(json!({"odd": k}));
        }
        out.push(json!({"adjgap": 0}));
        out.push(json!({"adjgap": 1}));
        out
    }
    fn run_unit(&self, unit: &Value, ctx: &mut Ctx) {
        if let Some(k) = unit.get("odd").and_then(|k| k.as_u64()) {
            run_odd_command("C10", k as usize, unit, None, ctx);
            return;
        }
        if let Some(k) = unit.get("adjgap").and_then(|k| k.as_u64()) {
            run_adjacent_gap(k as usize, unit, None, ctx);
            return;
        }
        let u: Unit = serde_json::from_value(unit.clone()).unwrap();
        run_u(&u, unit, None, ctx);
    }
    fn replay(&self, unit: &Value, case: &Value, ctx: &mut Ctx) {
        if let Some(k) = unit.get("odd").and_then(|k| k.as_u64()) {
            let argv: Vec<Tok> = serde_json::from_value(case["argv"].clone()).unwrap_or_default();
            run_odd_command("C10", k as usize, unit, Some(&argv), ctx);
            return;
        }
        if let Some(k) = unit.get("adjgap").and_then(|k| k.as_u64()) {
            let argv: Vec<Tok> = serde_json::from_value(case["argv"].clone()).unwrap_or_default();
            run_adjacent_gap(k as usize, unit, Some(&argv), ctx);
            return;
        }
        let u: Unit = serde_json::from_value(unit.clone()).unwrap();
        let base: Vec<Tok> = serde_json::from_value(case["base"].clone()).unwrap_or_default();
        let pos = case["pos"].as_u64().unwrap_or(0) as usize;
        let token = case["token"].as_str().unwrap_or("--help").to_string();
        run_u(&u, unit, Some((&base, pos, &token)), ctx);
    }
    fn rule(&self) -> String {
        "definitions = conventional levels (<=2 named items x all tails incl. command tails of depth 3, version configured nowhere / at the top / everywhere), command trees of C08 (every fifth with custom - non-ASCII - help names on all levels, every seventh on the sub-commands only), the general shape family and adjacent group shapes; base vectors = every vector of the token tree (valid, invalid, incomplete); the help token (--help, -h, custom names) and the version token (--version, -V) are inserted as an item of their own at EVERY position left of the first `--`; oracle: outcome is stdout and equals, byte for byte, the help/version text of the level owning that position (reference level finder: deepest command whose name was the first unclaimed item), version is an ordinary unknown flag where not configured; on levels with a version and no commands a version item added at any position next to the help item still gives the help; for general shapes the level is judged while no command name precedes the position; for adjacent commands a position directly behind the command name and its own items belongs to the command; plus commands in unusual places (inside an optional member of a group that is one branch of an alternative; under fallback beside a valued alternative): help after the name, with malformed items around it, is the command's; evaluation = one run; non-trivial = judged insertion; plus repeated groups and choices holding a positional beside a named item (some / many / collect / last, top level and inside a command); plus switches written with an attached value (--verbose=1, -v=1, --quiet=), top level and inside a command; help behind an adjacent command and an item of the enclosing level (c1 -v --help): some help on stdout (known finding F13 when the command has a required item)".into()
    }
    fn bounds(&self, tier: Tier) -> Value {
        json!({"base_vector_length": tier.pick("3 (1 item), 2 (2 items, trees, shapes), 3 (groups)", "4 / 3 / 4"), "insert_positions": "all, left of `--`"})
    }
}

fn run_u(u: &Unit, unit: &Value, only: Option<(&[Tok], usize, &str)>, ctx: &mut Ctx) {
    let mut opts = match (&u.level, &u.opts) {
        (Some(l), _) => l.to_opts(),
        (_, Some(o)) => o.clone(),
        _ => return,
    };
    if u.custom_help {
        fn custom(o: &mut Opts) {
            o.cfg.help_names = Some(Names { shorts: vec!['п'], longs: vec!["ayuda".into()], envs: vec![], help: Some(DocSpec::plain("muestra ayuda")), long_first: false });
            fn walk(p: &mut P) {
                match p {
                    P::Cmd { inner, .. } => custom(inner),
                    P::Seq(v) | P::Alt(v) | P::Choice(v) | P::Adj(v) => v.iter_mut().for_each(walk),
                    P::Optional(x, _) | P::Many(x, _) | P::Some_(x, _) | P::Fallback(x, _, _) => walk(x),
                    _ => {}
                }
            }
            walk(&mut o.p);
        }
        if u.custom_sub_only {
            let keep = opts.cfg.help_names.clone();
            custom(&mut opts);
            opts.cfg.help_names = keep;
        } else {
            custom(&mut opts);
        }
    }
    let p = match build_checked(&opts) {
        Ok(p) => p,
        Err(_) => return,
    };
    let mut e = Env10 { u, unit, p: &p, model: u.level.as_ref().map(Model::new), help_cache: BTreeMap::new(), top_help: None };
    if u.custom_help && !u.custom_sub_only {
        if let Some(m) = &mut e.model {
            m.flags.push('п');
        }
    }
    if let Some((base, pos, token)) = only {
        ctx.s.evaluations += 1;
        check_base(&mut e, base, Some((pos, token)), ctx);
        return;
    }
    let alpha = if u.alpha.is_empty() { shape::shape_alphabet(u.opts.as_ref().unwrap()) } else { u.alpha.clone() };
    tree(&alpha, u.len, &mut |argv| {
        ctx.s.states += 1;
        check_base(&mut e, argv, None, ctx);
        true
    });
}
