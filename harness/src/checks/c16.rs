//! C16 — generated documentation is complete and well-formed (markdown, html, manpage).
use crate::def::*;
use crate::docfam::*;
use crate::run::*;
use crate::sup::*;
use crate::vis::*;
use serde::{Deserialize, Serialize};
use serde_json::{json, Value};
use std::collections::BTreeMap;

pub struct C16;

#[derive(Serialize, Deserialize, Clone)]
pub enum Unit {
    /// structural family: sections and item coverage
    Structure { opts: Opts },
    /// metacharacter strings in one text slot: all concatenations starting with fragment `first`
    Text { slot: usize, first: usize, max_frags: usize },
    /// a text slot holding a sequence of separately styled fragments: every sequence of styles
    Styled { slot: usize, max_frags: usize },
}

const STYLES: [Sty; 5] = [Sty::Text, Sty::Lit, Sty::Em, Sty::Inv, Sty::Nested];
const STYLED_FRAGS: [&str; 4] = ["one", " <two> ", "three.x", "\n\nfour & five"];
/// the k-th sequence of n styles, as a styled document
fn styled_doc(n: usize, mut k: usize) -> DocSpec {
    let mut v = vec![];
    for i in 0..n {
        v.push((STYLES[k % STYLES.len()], STYLED_FRAGS[i % STYLED_FRAGS.len()].to_string()));
        k /= STYLES.len();
    }
    DocSpec(v)
}

pub const FRAGS: [&str; 22] = ["\n    ", "\n\n```\n", ".x", "'x", "\\fB", "\\", "-", "<zz>", "</dd>", "&", ">", "\n.", "\n'", "\n ", "\n\n", "[x](y)", "`", "*", "_", "#", "é", "word"];
pub const SLOTS: usize = 8;

pub fn slot_def(slot: usize, text: &str) -> (Opts, String) {
    slot_def_doc(slot, text, DocSpec::plain(text))
}
pub fn slot_def_doc(slot: usize, text: &str, d: DocSpec) -> (Opts, String) {
    let plain = P::Switch(Names::both('p', "plain").help("plain help"));
    let mut app = "app".to_string();
    let o = match slot {
        0 => Opts::new(P::Seq(vec![P::Switch(Names { help: Some(d), ..Names::both('a', "alpha") }), plain])),
        1 => {
            let mut o = Opts::new(P::Seq(vec![plain]));
            o.cfg.descr = Some(d);
            o
        }
        2 => {
            let mut o = Opts::new(P::Seq(vec![plain]));
            o.cfg.header = Some(d.clone());
            o.cfg.footer = Some(d);
            o
        }
        3 => Opts::new(P::Seq(vec![P::GroupHelp(P::Seq(vec![P::Switch(Names::both('g', "grouped").help("grouped help")), plain]).bx(), d)])),
        4 => Opts::new(P::Seq(vec![plain, P::Pos { ty: Ty::Os, strict: Strict::Any, metavar: "POS".into(), help: Some(d) }])),
        5 => {
            let mut inner = Opts::new(P::Seq(vec![P::Switch(Names::short('x'))]));
            inner.cfg.descr = Some(d.clone());
            Opts::new(P::Seq(vec![plain, P::Cmd { name: "cmd".into(), shorts: vec![], longs: vec![], inner: Box::new(inner), adjacent: false, help: Some(d) }]))
        }
        // metavariable (single line only)
        6 => Opts::new(P::Seq(vec![P::Arg { names: Names::both('m', "meta").help("meta help"), ty: Ty::Os, adjacent: false, metavar: text.replace('\n', "N") }, plain])),
        // application name (single line only)
        7 => {
            app = text.replace('\n', "N");
            Opts::new(P::Seq(vec![plain]))
        }
        _ => unreachable!(),
    };
    (o, app)
}

fn viol(rule: &str, unit: &Value, case: Value, format: &str, expected: String, observed: &str) -> Violation {
    let mut sig = BTreeMap::new();
    sig.insert("format".to_string(), format.to_string());
    sig.insert("clause".to_string(), rule.to_string());
    if let Some(s) = case.get("slot") {
        sig.insert("slot".to_string(), s.to_string());
    }
    if case.get("slot").is_none() {
        let d: String = expected.chars().map(|c| if c.is_ascii_digit() { '#' } else { c }).take(50).collect();
        sig.insert("detail".to_string(), d);
    }
    let size = case.to_string().len();
    Violation { property: "C16".into(), rule: rule.into(), sig, unit: unit.clone(), case, expected, observed: observed.chars().take(1200).collect(), size }
}

#[cfg(feature = "full")]
pub fn render(p: &bpaf::OptionParser<Val>, app: &str, format: &str) -> Result<String, String> {
    match format {
        "markdown" => catch(|| p.render_markdown(app.to_string())),
        "html" => catch(|| p.render_html(app.to_string())),
        _ => catch(|| p.render_manpage(app, bpaf::doc::Section::General, None, None, None)),
    }
}
#[cfg(not(feature = "full"))]
pub fn render(_p: &bpaf::OptionParser<Val>, _app: &str, _format: &str) -> Result<String, String> {
    Ok(String::new())
}

// ---------------------------------------------------------------------------------------
// independent lexers
// ---------------------------------------------------------------------------------------
const HTML_TAGS: [&str; 12] = ["p", "br", "li", "b", "tt", "i", "div", "dl", "dt", "dd", "pre", "ul"];
const HTML_VOID: [&str; 1] = ["br"];

/// Ok(()) or a description of the first problem
pub fn lex_html(s: &str) -> Result<(), String> {
    let b = s.as_bytes();
    let mut stack: Vec<String> = vec![];
    let mut i = 0;
    while i < b.len() {
        match b[i] {
            b'<' => {
                let end = match s[i..].find('>') {
                    Some(e) => i + e,
                    None => return Err(format!("`<` at byte {} does not start a tag", i)),
                };
                let inner = &s[i + 1..end];
                let (closing, name) = match inner.strip_prefix('/') {
                    Some(n) => (true, n),
                    None => (false, inner.split(' ').next().unwrap_or("")),
                };
                // the renderer's only attribute is a fixed style on <div>
                if !closing && inner.contains(' ') && !(name == "div" && inner.starts_with("div style='padding-left: ") && inner.ends_with("em'")) {
                    return Err(format!("tag <{}> carries unexpected attributes", inner.chars().take(30).collect::<String>()));
                }
                if !HTML_TAGS.contains(&name) {
                    return Err(format!("tag <{}> is not one of the renderer's own tags", inner.chars().take(20).collect::<String>()));
                }
                if closing {
                    match stack.pop() {
                        Some(top) if top == name => {}
                        Some(top) => return Err(format!("</{}> closes <{}>", name, top)),
                        None => return Err(format!("</{}> without an open tag", name)),
                    }
                } else if !HTML_VOID.contains(&name) {
                    stack.push(name.to_string());
                }
                i = end + 1;
            }
            b'>' => return Err(format!("raw `>` in text at byte {}", i)),
            _ => i += 1,
        }
    }
    if let Some(t) = stack.pop() {
        return Err(format!("<{}> is never closed", t));
    }
    Ok(())
}

const ROFF_REQUESTS: [&str; 9] = [".TH", ".SH", ".SS", ".TP", ".PP", ".nf", ".fi", ".ie", ".el"];

/// checks one roff document; returns the decoded text
pub fn lex_roff(s: &str) -> Result<String, String> {
    let mut decoded = String::new();
    for (ln, line) in s.lines().enumerate() {
        if ln < 2 && (line == ".ie \\n(.g .ds Aq \\(aq" || line == ".el .ds Aq '") {
            continue; // the fixed preamble
        }
        let text = if line.starts_with('.') || line.starts_with('\'') {
            let req = line.split(' ').next().unwrap_or("");
            if !ROFF_REQUESTS.contains(&req) {
                return Err(format!("line {} starts with a control character but is not one of bpaf's requests: {:?}", ln + 1, line.chars().take(60).collect::<String>()));
            }
            &line[req.len()..]
        } else {
            line
        };
        // escapes
        let cs: Vec<char> = text.chars().collect();
        let mut i = 0;
        while i < cs.len() {
            if cs[i] != '\\' {
                decoded.push(cs[i]);
                i += 1;
                continue;
            }
            let rest: String = cs[i + 1..].iter().take(4).collect();
            if rest.starts_with("fB") || rest.starts_with("fI") || rest.starts_with("fR") || rest.starts_with("fP") {
                i += 3;
            } else if rest.starts_with('-') {
                decoded.push('-');
                i += 2;
            } else if rest.starts_with('\\') {
                decoded.push('\\');
                i += 2;
            } else if rest.starts_with('&') {
                i += 2;
            } else if rest.starts_with("*(Aq") {
                decoded.push('\'');
                i += 5;
            } else if rest.starts_with(' ') {
                decoded.push(' ');
                i += 2;
            } else {
                return Err(format!("line {}: escape `\\{}` is not one of bpaf's own", ln + 1, rest.chars().take(3).collect::<String>()));
            }
        }
        decoded.push('\n');
    }
    Ok(decoded)
}

fn check_text_case(unit: &Value, slot: usize, text: &str, only_format: Option<&str>, ctx: &mut Ctx) {
    check_doc_case(unit, slot, text, None, only_format, ctx)
}
fn check_doc_case(unit: &Value, slot: usize, text: &str, styled: Option<(usize, usize)>, only_format: Option<&str>, ctx: &mut Ctx) {
    let (o, app) = match styled {
        Some((n, k)) => slot_def_doc(slot, text, styled_doc(n, k)),
        None => slot_def(slot, text),
    };
    let p = match build_checked(&o) {
        Ok(p) => p,
        Err(e) => {
            ctx.violation(viol("renderers-succeed", unit, json!({"slot": slot, "text": text, "format": "build"}), "build", "definition builds".into(), &e));
            return;
        }
    };
    ctx.s.states += 1;
    for format in ["markdown", "html", "manpage"] {
        if let Some(f) = only_format {
            if f != format {
                continue;
            }
        }
        let case = json!({"slot": slot, "text": text, "format": format, "styled": styled.map(|(n, k)| vec![n, k])});
        ctx.begin_case(|| case.clone());
        ctx.s.evaluations += 1;
        let out = match render(&p, &app, format) {
            Ok(s) => s,
            Err(e) => {
                ctx.violation(viol("renderers-succeed", unit, case, format, "renders without panic".into(), &e));
                continue;
            }
        };
        match format {
            "html" => {
                if let Err(e) = lex_html(&out) {
                    ctx.violation(viol("html-balanced-and-user-text-escaped", unit, case, format, e, &out));
                    continue;
                }
            }
            "manpage" => match lex_roff(&out) {
                Err(e) => {
                    ctx.violation(viol("manpage-only-own-requests-and-escapes", unit, case, format, e, &out));
                    continue;
                }
                Ok(decoded) => {
                    // the fixed neighbours keep their own rows whatever the slot holds
                    let mut fixed = vec!["plain help"];
                    if slot == 3 {
                        fixed.push("grouped help");
                    }
                    if slot == 6 {
                        fixed.push("meta help");
                    }
                    if let Some(f) = fixed.iter().find(|f| !decoded.contains(**f)) {
                        ctx.violation(viol("manpage-keeps-neighbouring-items", unit, json!({"slot": slot, "text": text, "format": format}), format, format!("decoded text contains the neighbouring help line {:?}", f), &out));
                        continue;
                    }
                    // decoding gives the user text back (help-like slots keep their case)
                    if (slot == 0 || slot == 4) && styled.is_none() {
                        for l in text.split('\n') {
                            let l = l.trim();
                            if !l.is_empty() && !decoded.contains(l) {
                                ctx.violation(viol("manpage-decodes-to-user-text", unit, json!({"slot": slot, "text": text, "format": format}), format, format!("decoded text contains the help line {:?}", l), &out));
                                break;
                            }
                        }
                    }
                }
            },
            _ => {}
        }
        ctx.s.nontrivial += 1;
    }
}

/// section texts per command path
fn sections(format: &str, out: &str, app: &str) -> BTreeMap<String, String> {
    let mut res: BTreeMap<String, String> = BTreeMap::new();
    let mut cur: Option<String> = None;
    for line in out.lines() {
        let header: Option<String> = match format {
            "markdown" => line.strip_prefix("## ").or_else(|| line.strip_prefix("# ")).map(|s| s.trim().to_string()),
            "html" => line.strip_prefix("# ").and_then(|s| s.strip_suffix("<br>")).map(|s| s.trim().to_string()),
            _ => line.strip_prefix(".SH ").map(|s| s.replace("\\ ", " ").trim().to_string()).filter(|s| s != "NAME" && s != "SYNOPSIS"),
        };
        if let Some(h) = header {
            let key = if format == "manpage" { h.to_lowercase() } else { h };
            if key.starts_with(&app.to_lowercase()) || key.starts_with(app) {
                cur = Some(key.to_lowercase());
                res.entry(key.to_lowercase()).or_default();
                continue;
            }
        }
        if let Some(c) = &cur {
            let e = res.get_mut(c).unwrap();
            e.push_str(line);
            e.push('\n');
        }
    }
    // a parser without sub-commands is documented as one unnamed section
    if res.is_empty() && format == "manpage" {
        res.insert(app.to_lowercase(), out.to_string());
    }
    res
}

fn check_structure(unit: &Value, o: &Opts, only_format: Option<&str>, ctx: &mut Ctx) {
    let p = match build_checked(o) {
        Ok(p) => p,
        Err(_) => return,
    };
    if catch(|| p.check_invariants(false)).is_err() {
        ctx.s.skipped += 1;
        return;
    }
    ctx.s.states += 1;
    let lv = levels(o);
    for format in ["markdown", "html", "manpage"] {
        if let Some(f) = only_format {
            if f != format {
                continue;
            }
        }
        ctx.s.evaluations += 1;
        let case = json!({"format": format});
        let out = match render(&p, "app", format) {
            Ok(s) => s,
            Err(e) => {
                ctx.violation(viol("renderers-succeed", unit, case, format, "renders without panic".into(), &e));
                continue;
            }
        };
        let secs = sections(format, &out, "app");
        let mut ok = true;
        for (path, level) in &lv {
            let mut key = String::from("app");
            for s in path {
                key.push(' ');
                key.push_str(s);
            }
            let sec = match secs.get(&key) {
                Some(s) => s,
                None => {
                    ok = false;
                    ctx.violation(viol("one-section-per-command-level", unit, case.clone(), format, format!("a section for `{}` (found {:?})", key, secs.keys().collect::<Vec<_>>()), &out));
                    continue;
                }
            };
            // undo the format's own escaping for the name search
            let plain = if format == "manpage" { lex_roff(sec).unwrap_or_else(|_| sec.replace("\\-", "-")) } else { sec.clone() };
            let words: Vec<String> = plain.split(|c: char| !(c.is_alphanumeric() || c == '-')).map(|w| w.to_string()).collect();
            let vis = visible(level);
            for row in &vis.rows {
                if let Row::Named { short, long, .. } = row {
                    for name in short.iter().map(|s| format!("-{}", s)).chain(long.iter().map(|l| format!("--{}", l))) {
                        if !words.iter().any(|w| w == &name) {
                            ok = false;
                            ctx.violation(viol("every-visible-item-mentioned", unit, case.clone(), format, format!("{} mentioned in section `{}`", name, key), sec));
                        }
                    }
                }
                if let Row::Cmd { name, .. } = row {
                    if !words.iter().any(|w| w == name) {
                        ok = false;
                        ctx.violation(viol("every-visible-item-mentioned", unit, case.clone(), format, format!("command {} mentioned in section `{}`", name, key), sec));
                    }
                }
            }
            for f in &vis.forbidden {
                if words.iter().any(|w| w == f) {
                    ok = false;
                    ctx.violation(viol("no-hidden-item-mentioned", unit, case.clone(), format, format!("{} must not be mentioned in section `{}`", f, key), sec));
                }
            }
            // the help / version switches documented for a level are that level's own
            if level.cfg.help_names.is_none() && level.cfg.version_names.is_none() {
                let has = |n: &str| words.iter().any(|w| w == n);
                if !has("--help") {
                    ok = false;
                    ctx.violation(viol("help-and-version-switches-are-the-levels-own", unit, case.clone(), format, format!("--help mentioned in section `{}`", key), sec));
                }
                if has("--version") != level.cfg.version.is_some() {
                    ok = false;
                    ctx.violation(viol("help-and-version-switches-are-the-levels-own", unit, case.clone(), format, format!("--version mentioned in section `{}` iff that level configures a version ({})", key, level.cfg.version.is_some()), sec));
                }
            }
        }
        if secs.len() != lv.len() {
            ok = false;
            ctx.violation(viol("one-section-per-command-level", unit, case.clone(), format, format!("{} sections, one per reachable level (found {:?})", lv.len(), secs.keys().collect::<Vec<_>>()), &out));
        }
        if format == "html" {
            if let Err(e) = lex_html(&out) {
                ok = false;
                ctx.violation(viol("html-balanced-and-user-text-escaped", unit, case.clone(), format, e, &out));
            }
        }
        if format == "manpage" {
            if let Err(e) = lex_roff(&out) {
                ok = false;
                ctx.violation(viol("manpage-only-own-requests-and-escapes", unit, case.clone(), format, e, &out));
            }
        }
        if ok {
            ctx.s.nontrivial += 1;
            if ctx.wants_sample() && lv.len() >= 3 && format == "manpage" {
                ctx.sample(|| json!({"format": format, "levels": lv.iter().map(|l| l.0.join(" ")).collect::<Vec<_>>(), "sections": secs.keys().collect::<Vec<_>>()}));
            }
        }
    }
}

fn strings(first: usize, n: usize) -> Vec<String> {
    let mut out = vec![FRAGS[first].to_string()];
    let mut last = out.clone();
    for _ in 1..n {
        let mut next = vec![];
        for s in &last {
            for f in FRAGS {
                next.push(format!("{}{}", s, f));
            }
        }
        out.extend(next.iter().cloned());
        last = next;
    }
    out
}

impl Check for C16 {
    fn id(&self) -> &'static str {
        "C16"
    }
    fn level(&self) -> &'static str {
        "exploration"
    }
    fn units(&self, tier: Tier, _seed: u64) -> Vec<Value> {
        let mut out = vec![];
        for o in doc_defs(tier.pick(2, 3)) {
            out.push(serde_json::to_value(Unit::Structure { opts: o }).unwrap());
        }
        for slot in 0..SLOTS {
            for first in 0..FRAGS.len() {
                out.push(serde_json::to_value(Unit::Text { slot, first, max_frags: tier.pick(3, 4) }).unwrap());
            }
            if slot < 6 {
                out.push(serde_json::to_value(Unit::Styled { slot, max_frags: tier.pick(3, 5) }).unwrap());
            }
        }
        out
    }
    fn run_unit(&self, unit: &Value, ctx: &mut Ctx) {
        std::env::remove_var("BPAFMC_DOC");
        match serde_json::from_value::<Unit>(unit.clone()).unwrap() {
            Unit::Structure { opts } => check_structure(unit, &opts, None, ctx),
            Unit::Styled { slot, max_frags } => {
                for n in 1..=max_frags {
                    for k in 0..STYLES.len().pow(n as u32) {
                        check_doc_case(unit, slot, &styled_doc(n, k).flat(), Some((n, k)), None, ctx);
                    }
                }
            }
            Unit::Text { slot, first, max_frags } => {
                for s in strings(first, max_frags) {
                    check_text_case(unit, slot, &s, None, ctx);
                }
                if first == 0 {
                    // empty and blank texts (metavariable and application name must not be empty)
                    for s in ["", " ", "\n", "\n\n"] {
                        if slot < 6 {
                            check_text_case(unit, slot, s, None, ctx);
                        }
                    }
                }
                if ctx.wants_sample() {
                    ctx.sample(|| json!({"slot": slot, "first_fragment": FRAGS[first], "strings": strings(first, max_frags).len(), "formats": 3}));
                }
            }
        }
    }
    fn replay(&self, unit: &Value, case: &Value, ctx: &mut Ctx) {
        std::env::remove_var("BPAFMC_DOC");
        ctx.s.evaluations += 1;
        let format = case["format"].as_str().map(String::from);
        match serde_json::from_value::<Unit>(unit.clone()).unwrap() {
            Unit::Styled { slot, .. } => {
                let nk: Vec<usize> = serde_json::from_value(case["styled"].clone()).unwrap_or_default();
                if nk.len() == 2 {
                    check_doc_case(unit, slot, &styled_doc(nk[0], nk[1]).flat(), Some((nk[0], nk[1])), format.as_deref().filter(|f| *f != "build"), ctx);
                }
            }
            Unit::Structure { opts } => check_structure(unit, &opts, format.as_deref(), ctx),
            Unit::Text { .. } => {
                let slot = case["slot"].as_u64().unwrap_or(0) as usize;
                let text = case["text"].as_str().unwrap_or("").to_string();
                check_text_case(unit, slot, &text, format.as_deref().filter(|f| *f != "build"), ctx);
            }
        }
    }
    fn rule(&self) -> String {
        "(1) structure: the C12 definition family (ordered tuples of <=2, thorough 3, of 18 documented field kinds x 8 tails incl. nested and hidden commands and command paths that differ only in dash versus nesting): render_markdown / render_html / render_manpage return, contain exactly one section per reachable command level, each section mentions every visible flag/argument/command name of that level and no hidden or alias name, --help, and --version exactly when that level (not the root, not a sibling) configures a version; (2) text: 8 text slots (also empty and blank texts) (item help, descr, header+footer, group title, positional help, command help + inner descr, metavariable, application name) with EVERY concatenation of <=3 (thorough 4) fragments from 22 roff/HTML/markdown metacharacter fragments (code-line start, fence start, .x 'x \\fB \\ - <zz> </dd> & > newline+. newline+' newline+space blank-line [x](y) ` * _ # é word): HTML scanned by an independent tag lexer (only the renderer's own tags, perfectly nested, no raw < or > from user text), manpage scanned by an independent roff lexer (every line starting with . or ' is one of .TH .SH .SS .TP .PP .nf .fi .ie .el; only the escapes \\fB \\fI \\fR \\fP \\- \\\\ \\& \\*(Aq '\\ '; decoding gives the help lines back and keeps the fixed neighbouring items); evaluation = one rendered document; (3) styled: the six document slots holding every sequence of <=3 (thorough 5) separately styled fragments (text, literal, emphasis, invalid, nested document), same lexers".into()
    }
    fn bounds(&self, tier: Tier) -> Value {
        json!({"fragments_per_string": tier.pick(3, 4), "slots": 8, "structure_fields": tier.pick(2, 3)})
    }
}
