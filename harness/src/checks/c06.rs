//! C06 — absent is not invalid: defaults never mask bad values.
//! A typed primitive under every wrapper stack of depth <= 3 in four contexts; every accepted
//! vector of the token tree gets each typed value replaced by every kind of invalid text (must
//! fail on stderr with the conversion / guard text), and the item removed (must give a value
//! when the stack defaults, a failure when it is required).
use crate::def::*;
use crate::explore::*;
use crate::run::*;
use crate::sup::*;
use serde::{Deserialize, Serialize};
use serde_json::{json, Value};
use std::collections::BTreeMap;

pub struct C06;

#[derive(Clone, Copy, Debug, PartialEq, Eq, Serialize, Deserialize)]
pub enum Prim {
    ArgFromStr,
    ArgParse,
    ArgGuard,
    Pos,
    EnvArg,
}
#[derive(Clone, Copy, Debug, PartialEq, Eq, Serialize, Deserialize)]
pub enum Wr {
    Guard,
    Hide,
    Fallback,
    /// `fallback(v).display_fallback()`: the same parser, the default is shown in the help
    FallbackShown,
    FallbackWithOk,
    FallbackWithErr,
    Last,
    Optional,
    OptionalCatch,
    Many,
    ManyCatch,
    Some,
    SomeCatch,
    Collect,
    GuardLen,
    FallbackList,
    /// `.count()`: the number of occurrences; every occurrence still has to be valid
    Count,
}
#[derive(Clone, Copy, Debug, PartialEq, Eq, Serialize, Deserialize)]
pub enum Ctx6 {
    Top,
    AltBranch,
    InCommand,
    InAdjacent,
    /// inside an `.adjacent()` sub-command
    InAdjCommand,
    /// the later branch of an optional choice whose earlier branch fails with a message of its
    /// own (`--job N` under `some("..")`): `[--job.. | item].optional()`
    AltAfterSome,
    /// inside a sub-command that is the later branch of a choice whose earlier branch takes any
    /// words (`[FILE.. | cmd ..]`): an entered command's failure is final
    AltCmdLater,
}
#[derive(Clone, Debug, Serialize, Deserialize)]
pub struct Def {
    pub prim: Prim,
    pub stack: Vec<Wr>,
    pub ctx: Ctx6,
    pub neighbours: usize,
    pub len: usize,
    /// the level carries `fallback_to_usage`: only an EMPTY failing line may print the usage,
    /// a present invalid value still fails with its own message
    #[serde(default)]
    pub usage: bool,
}

const ENVV: &str = "BPAFMC_N";
/// a second, alias, variable of the env-backed item: consulted when the first one is unset
const ENVV2: &str = "BPAFMC_N2";

#[derive(Clone, Copy, PartialEq, Eq)]
enum Ty6 {
    Scalar,
    Opt,
    List,
}
fn out_ty(w: Wr) -> Ty6 {
    match w {
        Wr::Guard | Wr::Hide | Wr::Fallback | Wr::FallbackShown | Wr::FallbackWithOk | Wr::FallbackWithErr | Wr::Last => Ty6::Scalar,
        Wr::Optional | Wr::OptionalCatch => Ty6::Opt,
        Wr::Count => Ty6::Opt, // a terminal type: only `hide` may follow
        _ => Ty6::List,
    }
}
fn applicable(cur: Ty6) -> Vec<Wr> {
    match cur {
        Ty6::Scalar => vec![Wr::Guard, Wr::Hide, Wr::Fallback, Wr::FallbackShown, Wr::FallbackWithOk, Wr::FallbackWithErr, Wr::Last, Wr::Optional, Wr::OptionalCatch, Wr::Many, Wr::ManyCatch, Wr::Some, Wr::SomeCatch, Wr::Collect, Wr::Count],
        Ty6::Opt => vec![Wr::Hide],
        Ty6::List => vec![Wr::GuardLen, Wr::Hide, Wr::FallbackList],
    }
}
pub fn stacks(depth: usize) -> Vec<Vec<Wr>> {
    let mut out = vec![vec![]];
    let mut last: Vec<(Vec<Wr>, Ty6)> = vec![(vec![], Ty6::Scalar)];
    for _ in 0..depth {
        let mut next = vec![];
        for (s, t) in &last {
            for w in applicable(*t) {
                // hide keeps the type
                let t2 = if w == Wr::Hide { *t } else { out_ty(w) };
                if w == Wr::Hide && s.last() == Some(&Wr::Hide) {
                    continue;
                }
                let mut s2 = s.clone();
                s2.push(w);
                next.push((s2, t2));
            }
        }
        out.extend(next.iter().map(|x| x.0.clone()));
        last = next;
    }
    out
}

fn prim_p(p: Prim) -> P {
    let names = Names::both('n', "num");
    match p {
        Prim::ArgFromStr => P::arg(names, Ty::U32),
        Prim::ArgParse => P::Parse(P::arg(names, Ty::Str).bx(), ParseK::ToU32),
        Prim::ArgGuard => P::Guard(P::arg(names, Ty::U32).bx(), GuardK::Lt10),
        Prim::Pos => P::pos(Ty::U32),
        Prim::EnvArg => P::arg(names.env(ENVV).env(ENVV2), Ty::U32),
    }
}
fn apply(w: Wr, p: P) -> P {
    match w {
        Wr::Guard => P::Guard(p.bx(), GuardK::Lt10),
        Wr::Hide => P::Hide(p.bx()),
        Wr::Fallback => P::Fallback(p.bx(), Val::N(5), false),
        Wr::FallbackShown => P::Fallback(p.bx(), Val::N(5), true),
        Wr::FallbackWithOk => P::FallbackWith(p.bx(), Ok(Val::N(5))),
        Wr::FallbackWithErr => P::FallbackWith(p.bx(), Err("no default available".into())),
        Wr::Last => P::Last(p.bx()),
        Wr::Optional => P::Optional(p.bx(), false),
        Wr::OptionalCatch => P::Optional(p.bx(), true),
        Wr::Many => P::Many(p.bx(), false),
        Wr::ManyCatch => P::Many(p.bx(), true),
        Wr::Some => P::Some_(p.bx(), false),
        Wr::SomeCatch => P::Some_(p.bx(), true),
        Wr::Count => P::Count(p.bx()),
        Wr::Collect => P::Collect(p.bx(), false),
        Wr::GuardLen => P::Guard(p.bx(), GuardK::Len2),
        Wr::FallbackList => P::Fallback(p.bx(), Val::L(vec![Val::N(5)]), false),
    }
}
pub fn to_opts(d: &Def) -> Opts {
    let mut item = prim_p(d.prim);
    for w in &d.stack {
        item = apply(*w, item);
    }
    let s = P::Switch(Names::both('s', "sw"));
    let t = P::arg(Names::both('t', "text"), Ty::Os).opt();
    let mut neigh = vec![];
    if d.neighbours >= 1 {
        neigh.push(s);
    }
    if d.neighbours >= 2 {
        neigh.push(t);
    }
    let is_pos = d.prim == Prim::Pos;
    let field = match d.ctx {
        Ctx6::Top | Ctx6::InCommand | Ctx6::InAdjCommand | Ctx6::AltCmdLater => item,
        Ctx6::AltAfterSome => P::Alt(vec![P::Map(P::Some_(P::arg(Names::long("job"), Ty::U32).bx(), false).bx(), "jobs".into()), P::Map(item.bx(), "it".into())]).opt(),
        Ctx6::AltBranch => P::Alt(vec![P::Map(item.bx(), "it".into()), P::Map(P::ReqFlag(Names::both('z', "zed")).bx(), "z".into())]),
        Ctx6::InAdjacent => P::Adj(vec![P::ReqFlag(Names::both('g', "grp")), item]).opt(),
    };
    let mut fields = neigh;
    let _ = is_pos;
    fields.push(field);
    let mut level = Opts::new(P::Seq(fields));
    level.cfg.fallback_to_usage = d.usage;
    match d.ctx {
        Ctx6::InCommand => Opts::new(P::Seq(vec![P::Switch(Names::both('o', "outer")), P::cmd("cmd", level)])),
        Ctx6::InAdjCommand => Opts::new(P::Seq(vec![P::Switch(Names::both('o', "outer")), P::Cmd { name: "cmd".into(), shorts: vec![], longs: vec![], inner: Box::new(level), adjacent: true, help: None }])),
        Ctx6::AltCmdLater => Opts::new(P::Seq(vec![P::Switch(Names::both('o', "outer")), P::Alt(vec![P::Map(P::Pos { ty: Ty::Os, strict: Strict::Any, metavar: "FILE".into(), help: None }.many().bx(), "files".into()), P::cmd("cmd", level)])])),
        _ => level,
    }
}

fn has_catch(s: &[Wr]) -> bool {
    s.iter().any(|w| matches!(w, Wr::OptionalCatch | Wr::ManyCatch | Wr::SomeCatch))
}
/// does the stack produce a value when the item is absent?
fn absent_ok(s: &[Wr]) -> bool {
    let mut ok = false; // the primitive alone is required
    for w in s {
        ok = match w {
            Wr::Guard | Wr::Hide | Wr::Last | Wr::GuardLen => ok,
            Wr::Fallback | Wr::FallbackShown | Wr::FallbackWithOk | Wr::FallbackList => true,
            Wr::FallbackWithErr => ok,
            Wr::Optional | Wr::OptionalCatch | Wr::Many | Wr::ManyCatch | Wr::Collect | Wr::Count => true,
            Wr::Some | Wr::SomeCatch => ok,
        };
    }
    ok
}
/// does a guard (< 10) apply to every typed value?
fn guarded(d: &Def) -> bool {
    if d.prim == Prim::ArgGuard {
        return true;
    }
    // a scalar guard before any list/option wrapper
    for w in &d.stack {
        match w {
            Wr::Guard => return true,
            // after `last` a guard sees only the last value: earlier ones are dropped by design
            Wr::Last => return false,
            Wr::Hide | Wr::Fallback | Wr::FallbackShown | Wr::FallbackWithOk | Wr::FallbackWithErr => {}
            _ => return false,
        }
    }
    false
}

pub fn alphabet_for(d: &Def) -> Vec<Tok> {
    let mut a = vec![];
    if d.prim == Prim::Pos {
        a.push(Tok::s("7"));
        a.push(Tok::s("3"));
    } else {
        a.push(Tok::s("--num=7"));
        a.push(Tok::s("--num=3"));
        a.push(Tok::s("-n3"));
        a.push(Tok::s("-n"));
        a.push(Tok::s("7"));
    }
    if d.neighbours >= 1 {
        a.push(Tok::s("-s"));
    }
    if d.neighbours >= 2 {
        a.push(Tok::s("--text=v"));
    }
    match d.ctx {
        Ctx6::AltBranch => a.push(Tok::s("-z")),
        Ctx6::InCommand | Ctx6::InAdjCommand | Ctx6::AltCmdLater => {
            a.push(Tok::s("cmd"));
            a.push(Tok::s("-o"));
        }
        Ctx6::InAdjacent => a.push(Tok::s("--grp")),
        Ctx6::Top | Ctx6::AltAfterSome => {}
    }
    a
}

/// positions of typed value occurrences: (token index, prefix before the value)
fn typed_occurrences(d: &Def, argv: &[Tok]) -> Vec<(usize, Vec<u8>)> {
    let mut out = vec![];
    let mut i = 0;
    while i < argv.len() {
        let t = &argv[i].0;
        if d.prim == Prim::Pos {
            if t == b"7" || t == b"3" {
                out.push((i, vec![]));
            }
        } else if t.starts_with(b"--num=") {
            out.push((i, b"--num=".to_vec()));
        } else if t.starts_with(b"-n") && t.len() > 2 && t[2] != b'=' {
            // the value attached to the short name
            out.push((i, b"-n".to_vec()));
        } else if t == b"-n" && i + 1 < argv.len() && argv[i + 1].0 == b"7" {
            out.push((i + 1, vec![]));
            i += 1;
        }
        i += 1;
    }
    out
}

struct Bad {
    text: Vec<u8>,
    /// needs the attached form (would not tokenise as a word)
    attached_only: bool,
    fragment: &'static str,
    guard: bool,
}
fn bads() -> Vec<Bad> {
    vec![
        Bad { text: b"x".to_vec(), attached_only: false, fragment: "invalid digit found in string", guard: false },
        Bad { text: b"".to_vec(), attached_only: false, fragment: "cannot parse integer from empty string", guard: false },
        Bad { text: b"-1".to_vec(), attached_only: true, fragment: "invalid digit found in string", guard: false },
        Bad { text: b"99999999999".to_vec(), attached_only: false, fragment: "number too large to fit in target type", guard: false },
        Bad { text: vec![0xff], attached_only: false, fragment: "is not a valid utf8", guard: false },
        Bad { text: b"11".to_vec(), attached_only: false, fragment: GUARD_MSG_LT10, guard: true },
    ]
}

fn viol(rule: &str, d: &Def, unit: &Value, what: &str, base: &[Tok], argv: &[Tok], expected: String, r: &Outcome) -> Violation {
    let mut sig = BTreeMap::new();
    sig.insert("prim".to_string(), format!("{:?}", d.prim));
    sig.insert("stack".to_string(), format!("{:?}", d.stack));
    sig.insert("context".to_string(), format!("{:?}", d.ctx));
    sig.insert("what".to_string(), what.to_string());
    sig.insert("observed".to_string(), r.class().to_string());
    Violation { property: "C06".into(), rule: rule.into(), sig, unit: unit.clone(), case: json!({"base": base, "argv": argv, "what": what}), expected, observed: r.brief(), size: argv.len() * 1000 + d.stack.len() * 100 + d.neighbours }
}

fn check_accepted(d: &Def, unit: &Value, p: &bpaf::OptionParser<Val>, argv: &[Tok], only: Option<&[Tok]>, ctx: &mut Ctx) {
    let mut occ = typed_occurrences(d, argv);
    // beside a word-taking branch only what follows the first item, the command name, is the
    // command's (anything in front of it makes the line one of the other branch)
    if d.ctx == Ctx6::AltCmdLater {
        if argv.first().map_or(true, |t| t.0 != b"cmd") {
            return;
        }
        occ.retain(|(ti, _)| *ti > 0);
    }
    if occ.is_empty() {
        return;
    }
    ctx.s.nontrivial += 1;
    let catch = has_catch(&d.stack);
    let in_alt = d.ctx == Ctx6::AltBranch;
    for (ti, prefix) in &occ {
        for b in bads() {
            if b.guard && !guarded(d) {
                continue;
            }
            if b.attached_only && prefix.is_empty() {
                continue;
            }
            // attached to the short name: no value at all is a bare name, bytes that are not
            // UTF-8 are C02's business (known findings there)
            if prefix == b"-n" && (b.text.is_empty() || b.text == [0xff] || b.text == b"-1") {
                continue;
            }
            if d.prim == Prim::Pos && b.text.is_empty() {
                // an empty word is a legitimate positional item; still invalid for u32
            }
            let mut v2 = argv.to_vec();
            let mut t = prefix.clone();
            t.extend_from_slice(&b.text);
            v2[*ti] = Tok(t);
            if let Some(o) = only {
                if o != v2.as_slice() {
                    continue;
                }
            }
            ctx.begin_case(|| json!({"argv": v2}));
            ctx.s.evaluations += 1;
            ctx.s.transitions += 1;
            let r = run(p, &v2);
            if catch {
                // no demand beyond totality
                if let Outcome::Panic(_) = r {
                    ctx.violation(viol("no-panic", d, unit, "invalid-under-catch", argv, &v2, "no panic".into(), &r));
                }
                ctx.count("invalid-values-under-catch-not-judged");
                continue;
            }
            match &r {
                Outcome::Stderr(text) => {
                    if !in_alt && !text.contains(b.fragment) {
                        ctx.violation(viol("message-carries-conversion-or-guard-text", d, unit, &format!("invalid:{}", b.fragment), argv, &v2, format!("stderr text containing {:?}", b.fragment), &r));
                    } else {
                        ctx.count("present-invalid-rejected");
                    }
                }
                _ => ctx.violation(viol("present-but-invalid-fails", d, unit, &format!("invalid:{}", b.fragment), argv, &v2, "stderr failure".into(), &r)),
            }
        }
    }
    // the attached short spelling of a valid value means the same as the inline long one (not
    // for hidden items: that is the known finding F3a of C02)
    if d.prim != Prim::Pos && !d.stack.contains(&Wr::Hide) {
        if let Some(i) = argv.iter().position(|t| t.0 == b"--num=3") {
            let mut v2 = argv.to_vec();
            v2[i] = Tok::s("-n3");
            if only.map_or(true, |o| o == v2.as_slice()) {
                ctx.s.evaluations += 1;
                let base = run(p, argv);
                let r = run(p, &v2);
                if r != base {
                    ctx.violation(viol("attached-short-spelling-of-a-valid-value-is-the-same", d, unit, "respelled", argv, &v2, format!("the outcome of the long inline spelling: {}", base.brief()), &r));
                } else {
                    ctx.count("respelled-valid-values");
                }
            }
        }
    }
    // the item removed entirely (all its occurrences)
    let mut v3: Vec<Tok> = vec![];
    let mut i = 0;
    while i < argv.len() {
        let t = &argv[i].0;
        let is_typed = if d.prim == Prim::Pos { t == b"7" || t == b"3" } else { t.starts_with(b"--num=") || (t.starts_with(b"-n") && t.len() > 2) };
        if is_typed {
            i += 1;
            continue;
        }
        if d.prim != Prim::Pos && t == b"-n" && i + 1 < argv.len() && argv[i + 1].0 == b"7" {
            i += 2;
            continue;
        }
        v3.push(argv[i].clone());
        i += 1;
    }
    if let Some(o) = only {
        if o != v3.as_slice() {
            return;
        }
    }
    // in an alternative the other branch must be absent too for the clause to speak; in an
    // adjacent group the group's flag stays, so the member is what is missing
    if d.ctx == Ctx6::AltBranch && v3.iter().any(|t| t.0 == b"-z") {
        return;
    }
    if v3.iter().any(|t| t.0 == b"-n" || t.0 == b"7" || t.0 == b"3") && d.prim != Prim::Pos {
        return; // a dangling -n or a loose word: the line is not "the item absent"
    }
    ctx.s.evaluations += 1;
    let r = run(p, &v3);
    // (an optional choice is absent as a whole)
    let expect_value = absent_ok(&d.stack) || d.ctx == Ctx6::AltAfterSome;
    let group_absent = d.ctx == Ctx6::InAdjacent && !v3.iter().any(|t| t.0 == b"--grp");
    // with fallback_to_usage a level that got no items at all answers with its usage
    let level_empty = d.usage
        && (v3.is_empty()
            || (matches!(d.ctx, Ctx6::InCommand | Ctx6::InAdjCommand | Ctx6::AltCmdLater)
                && v3.iter().position(|t| t.0 == b"cmd").map_or(false, |c| v3[c + 1..].iter().all(|t| t.0 == b"-o" || t.0 == b"--outer"))));
    let ok = match (&r, expect_value || group_absent) {
        (Outcome::Value(_), true) => true,
        (Outcome::Stderr(t), false) => !t.trim().is_empty(),
        (Outcome::Stdout { text, .. }, false) if level_empty => text.contains("Usage"),
        _ => false,
    };
    if ok {
        ctx.count(if expect_value { "absent-defaulted-gives-value" } else { "absent-required-fails" });
    } else {
        ctx.violation(viol(if expect_value { "absent-defaulted-never-fails" } else { "absent-required-fails" }, d, unit, "removed", argv, &v3, if expect_value || group_absent { "a value (the item is absent and defaulted)".into() } else { "stderr failure (required item absent)".into() }, &r));
    }
}

fn env_clause(d: &Def, unit: &Value, p: &bpaf::OptionParser<Val>, ctx: &mut Ctx) {
    // with fallback_to_usage the empty failing line answers with the usage: not this clause
    if d.usage {
        return;
    }
    // absent from the line, variable holds an invalid value: same conversion, same failure
    for (val, frag) in [(&b"x"[..], "invalid digit found in string"), (&b""[..], "cannot parse integer from empty string"), (&b"1\xff"[..], "is not a valid utf8")] {
        // through the first variable, and through the second one with the first unset
        for var in [ENVV, ENVV2] {
        std::env::remove_var(ENVV);
        std::env::remove_var(ENVV2);
        std::env::set_var(var, Tok(val.to_vec()).os());
        let argv: Vec<Tok> = if matches!(d.ctx, Ctx6::InCommand | Ctx6::InAdjCommand | Ctx6::AltCmdLater) { toks(&["cmd"]) } else if d.ctx == Ctx6::InAdjacent { toks(&["--grp"]) } else { vec![] };
        ctx.s.evaluations += 1;
        let r = run(p, &argv);
        std::env::remove_var(ENVV);
        std::env::remove_var(ENVV2);
        if has_catch(&d.stack) {
            continue;
        }
        match &r {
            Outcome::Stderr(t) if d.ctx == Ctx6::AltBranch || t.contains(frag) => ctx.count("invalid-variable-rejected"),
            _ => ctx.violation(viol("present-but-invalid-fails", d, unit, "invalid-env", &argv, &argv, format!("stderr with {:?} ({} = {:?})", frag, var, String::from_utf8_lossy(val)), &r)),
        }
        }
    }
}

// ------------------------------------------------------------------------------------------
// a guard attached to a group of two arguments, the group bare / optional / repeated
// ------------------------------------------------------------------------------------------
#[derive(Clone, Debug, Serialize, Deserialize)]
pub struct GroupDef {
    pub group_wrap: usize, // 0 bare, 1 optional, 2 many, 3 some
    pub adjacent: bool,
    pub neighbour: bool,
    pub len: usize,
}

pub fn group_opts(g: &GroupDef) -> Opts {
    let min = P::arg(Names::long("min"), Ty::U32);
    let max = P::arg(Names::long("max"), Ty::U32);
    let grp = if g.adjacent { P::Adj(vec![P::ReqFlag(Names::long("range")), min, max]) } else { P::Seq(vec![min, max]) };
    let guarded = P::Guard(grp.bx(), GuardK::Ordered);
    let w = match g.group_wrap {
        0 => guarded,
        1 => guarded.opt(),
        2 => guarded.many(),
        _ => guarded.some(),
    };
    let mut f = vec![];
    if g.neighbour {
        f.push(P::Switch(Names::short('s')));
    }
    f.push(w);
    Opts::new(P::Seq(f))
}

/// reference: the k-th --min pairs with the k-th --max (adjacent: blocks `--range` + one of each)
fn group_model(g: &GroupDef, argv: &[Tok]) -> Option<Result<usize, bool>> {
    // returns Some(Ok(n groups)) accept, Some(Err(guard_failed_is_the_only_problem)) reject, None unspecified
    let mut mins = vec![];
    let mut maxs = vec![];
    let mut s = 0;
    let mut ranges = 0;
    let mut blocks: Vec<(Option<u64>, Option<u64>)> = vec![];
    for t in argv {
        let x = t.lossy();
        if x == "-s" {
            s += 1;
        } else if x == "--range" {
            ranges += 1;
            blocks.push((None, None));
        } else if let Some(v) = x.strip_prefix("--min=") {
            let n: u64 = v.parse().ok()?;
            mins.push(n);
            if g.adjacent {
                match blocks.last_mut() {
                    Some(b) if b.0.is_none() => b.0 = Some(n),
                    _ => return None,
                }
            }
        } else if let Some(v) = x.strip_prefix("--max=") {
            let n: u64 = v.parse().ok()?;
            maxs.push(n);
            if g.adjacent {
                match blocks.last_mut() {
                    Some(b) if b.1.is_none() => b.1 = Some(n),
                    _ => return None,
                }
            }
        } else {
            return None;
        }
    }
    if s > 1 || (!g.neighbour && s > 0) {
        return Some(Err(false));
    }
    if g.adjacent {
        // the switch between members of a block interrupts it: leave those lines to C19
        if argv.iter().any(|t| t.0 == b"-s") && argv.len() > 1 {
            let pos = argv.iter().position(|t| t.0 == b"-s").unwrap();
            let before_range = argv[..pos].iter().rev().take_while(|t| t.0 != b"--range").count();
            if pos > 0 && before_range < 2 && argv[..pos].iter().any(|t| t.0 == b"--range") {
                return None;
            }
        }
        if blocks.iter().any(|b| b.0.is_none() || b.1.is_none()) || ranges != blocks.len() {
            return Some(Err(false));
        }
    } else if mins.len() != maxs.len() {
        return Some(Err(false));
    }
    let n = mins.len();
    let count_ok = match g.group_wrap {
        0 => n == 1,
        1 => n <= 1,
        2 => true,
        _ => n >= 1,
    };
    if !count_ok {
        return Some(Err(false));
    }
    let ordered = if g.adjacent { blocks.iter().all(|b| b.0 <= b.1) } else { mins.iter().zip(maxs.iter()).all(|(a, b)| a <= b) };
    if ordered {
        Some(Ok(n))
    } else {
        Some(Err(true))
    }
}

fn run_group(g: &GroupDef, unit: &Value, only: Option<&[Tok]>, ctx: &mut Ctx) {
    let p = match build_checked(&group_opts(g)) {
        Ok(p) => p,
        Err(_) => return,
    };
    let mut alpha = toks(&["--min=1", "--min=5", "--max=2", "--max=3"]);
    if g.adjacent {
        alpha.push(Tok::s("--range"));
    }
    if g.neighbour {
        alpha.push(Tok::s("-s"));
    }
    let mut judge = |argv: &[Tok], ctx: &mut Ctx| {
        ctx.s.evaluations += 1;
        ctx.s.states += 1;
        let m = match group_model(g, argv) {
            Some(m) => m,
            None => {
                ctx.s.skipped += 1;
                return;
            }
        };
        let r = run(&p, argv);
        let ok = match (&m, &r) {
            (Ok(_), Outcome::Value(_)) => true,
            (Err(false), Outcome::Stderr(t)) => !t.trim().is_empty(),
            // a present group that fails its guard: stderr carrying the guard's message
            (Err(true), Outcome::Stderr(t)) => t.contains(GUARD_MSG_ORDERED),
            _ => false,
        };
        if ok {
            ctx.count(match m {
                Ok(_) => "group-accepted",
                Err(true) => "group-guard-rejected-with-message",
                Err(false) => "group-rejected",
            });
            if matches!(m, Err(true)) {
                ctx.s.nontrivial += 1;
            }
        } else {
            let mut sig = BTreeMap::new();
            sig.insert("family".to_string(), "guarded-group".to_string());
            sig.insert("wrap".to_string(), g.group_wrap.to_string());
            sig.insert("adjacent".to_string(), g.adjacent.to_string());
            sig.insert("model".to_string(), format!("{:?}", m));
            sig.insert("observed".to_string(), r.class().to_string());
            ctx.violation(Violation { property: "C06".into(), rule: if matches!(m, Err(true)) { "present-but-invalid-fails" } else { "guarded-group-conforms" }.into(), sig, unit: unit.clone(), case: json!({"argv": argv, "group": true}), expected: format!("{:?} (Err(true) = stderr with {:?})", m, GUARD_MSG_ORDERED), observed: r.brief(), size: argv.len() * 1000 });
        }
    };
    match only {
        Some(a) => judge(a, ctx),
        None => tree(&alpha, g.len, &mut |argv| {
            judge(argv, ctx);
            true
        }),
    }
}

impl Check for C06 {
    fn id(&self) -> &'static str {
        "C06"
    }
    fn level(&self) -> &'static str {
        "exploration"
    }
    fn units(&self, tier: Tier, _seed: u64) -> Vec<Value> {
        let mut out = vec![];
        let st = stacks(3);
        for prim in [Prim::ArgFromStr, Prim::ArgParse, Prim::ArgGuard, Prim::Pos, Prim::EnvArg] {
            for s in &st {
                for c in [Ctx6::Top, Ctx6::AltBranch, Ctx6::InCommand, Ctx6::InAdjacent, Ctx6::InAdjCommand] {
                    if prim == Prim::Pos && c == Ctx6::AltBranch {
                        continue; // a positional beside a named alternative: order rule
                    }
                    for neighbours in tier.pick(vec![0usize, 2], vec![0, 1, 2]) {
                        if prim == Prim::Pos && c == Ctx6::InAdjacent && false {
                            continue;
                        }
                        out.push(Def { prim, stack: s.clone(), ctx: c, neighbours, len: tier.pick(3, 4), usage: false });
                        if neighbours == 0 && matches!(c, Ctx6::Top | Ctx6::InCommand) && (s.len() <= 2 || tier == Tier::Thorough) {
                            out.push(Def { prim, stack: s.clone(), ctx: c, neighbours, len: tier.pick(3, 4), usage: true });
                        }
                    }
                }
            }
        }
        // the item as the later branch of a choice / inside a command that is the later branch
        for prim in [Prim::ArgFromStr, Prim::ArgGuard, Prim::EnvArg] {
            for s in stacks(2) {
                for c in [Ctx6::AltAfterSome, Ctx6::AltCmdLater] {
                    out.push(Def { prim, stack: s.clone(), ctx: c, neighbours: 0, len: tier.pick(3, 4), usage: false });
                }
            }
        }
        let mut out: Vec<Value> = out.into_iter().map(|d| serde_json::to_value(d).unwrap()).collect();
        for group_wrap in 0..4 {
            for adjacent in [false, true] {
                for neighbour in [false, true] {
                    out.push(json!({"group": GroupDef { group_wrap, adjacent, neighbour, len: tier.pick(if adjacent { 6 } else { 5 }, if adjacent { 7 } else { 6 }) }}));
                }
            }
        }
        out
    }
    fn run_unit(&self, unit: &Value, ctx: &mut Ctx) {
        if let Some(g) = unit.get("group") {
            let g: GroupDef = serde_json::from_value(g.clone()).unwrap();
            run_group(&g, unit, None, ctx);
            return;
        }
        let d: Def = serde_json::from_value(unit.clone()).unwrap();
        std::env::remove_var(ENVV);
        let p = match build_checked(&to_opts(&d)) {
            Ok(p) => p,
            Err(_) => return,
        };
        if catch(|| p.check_invariants(false)).is_err() {
            ctx.s.skipped += 1;
            return;
        }
        let alpha = alphabet_for(&d);
        tree(&alpha, d.len, &mut |argv| {
            ctx.s.states += 1;
            ctx.s.evaluations += 1;
            if let Outcome::Value(_) = run(&p, argv) {
                check_accepted(&d, unit, &p, argv, None, ctx);
                if ctx.wants_sample() && argv.len() >= 2 && !typed_occurrences(&d, argv).is_empty() {
                    ctx.sample(|| json!({"def": d, "accepted": argv, "replacements": "x, '', -1, 99999999999, \\xff, 11 -> stderr with conversion/guard text; item removed -> value iff defaulted"}));
                }
            }
            true
        });
        if d.prim == Prim::EnvArg {
            env_clause(&d, unit, &p, ctx);
        }
    }
    fn replay(&self, unit: &Value, case: &Value, ctx: &mut Ctx) {
        if let Some(g) = unit.get("group") {
            let g: GroupDef = serde_json::from_value(g.clone()).unwrap();
            let argv: Vec<Tok> = serde_json::from_value(case["argv"].clone()).unwrap_or_default();
            run_group(&g, unit, Some(&argv), ctx);
            return;
        }
        let d: Def = serde_json::from_value(unit.clone()).unwrap();
        std::env::remove_var(ENVV);
        let base: Vec<Tok> = serde_json::from_value(case["base"].clone()).unwrap_or_default();
        let argv: Vec<Tok> = serde_json::from_value(case["argv"].clone()).unwrap_or_default();
        if let Ok(p) = build_checked(&to_opts(&d)) {
            ctx.s.evaluations += 1;
            if case["what"].as_str() == Some("invalid-env") {
                env_clause(&d, unit, &p, ctx);
            } else if let Outcome::Value(_) = run(&p, &base) {
                check_accepted(&d, unit, &p, &base, Some(&argv), ctx);
            }
        }
    }
    fn rule(&self) -> String {
        "definitions = typed u32 primitive {argument via FromStr, argument via .parse(f), guarded argument, positional, env-backed argument} under EVERY type-correct wrapper stack of depth <= 3 from {guard, hide, fallback, fallback_with ok/err, last, optional, many, some, collect (with and without catch), guard on the list, fallback on the list} in 5 contexts {top-level field, branch of an alternative, inside a sub-command, member of an adjacent group, inside an adjacent sub-command} beside 0..2 neutral items, the bare levels also with fallback_to_usage (a present invalid value still fails with its own message); accepted vectors are discovered on the whole token tree; for each, every typed value occurrence is replaced by each of {x, empty, -1 attached, 99999999999, \\xff, guard-violating 11} -> must be an stderr failure whose text carries the FromStr / parse / guard message (text not demanded inside an alternative, nothing demanded under catch); the item removed -> a value iff the stack defaults when absent, else an stderr failure; env-backed: invalid (unparsable, empty, non-UTF-8) variable with the item absent from the line fails the same way; plus a guard attached to a GROUP of two arguments (plain and adjacent), the group bare / optional / many / some, judged on every vector of length <= 5-6 by a pairing model (k-th --min with k-th --max; a present pair violating the guard must fail with the guard's message, whichever repetition it is); evaluation = one run; non-trivial = accepted vector containing a typed value; two more contexts for stacks of depth <=2: the item as the later branch of an optional choice whose earlier branch fails with a message of its own ([--job.. some | item].optional()), and the item inside a command that is the later branch of a choice whose earlier branch takes any words ([FILE.. | cmd ..])".into()
    }
    fn bounds(&self, tier: Tier) -> Value {
        json!({"stack_depth": 3, "base_vector_length": tier.pick(3, 4)})
    }
}
