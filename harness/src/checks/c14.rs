//! C14 — dynamic completion offers real, visible, applicable candidates.
#![cfg(feature = "full")]
use crate::conv::*;
use crate::def::*;
use crate::explore::*;
use crate::fam;
use crate::run::*;
use crate::sup::*;
use serde::{Deserialize, Serialize};
use serde_json::{json, Value};
use std::collections::BTreeMap;

pub struct C14;

#[derive(Serialize, Deserialize)]
pub struct Unit {
    pub level: Level,
    pub len: usize,
    /// long/short names (first spelling) of arguments that get an echoing completer
    pub completers: Vec<String>,
    /// defaulted items use `fallback_with` instead of `fallback`
    #[serde(default)]
    pub fallback_with: bool,
    /// 1: repeated items are written `.some(msg).optional()`; 2: optional / repeated items carry
    /// `.catch()` - neither changes what can be typed next
    #[serde(default)]
    pub decor: u8,
    /// sub-commands wrapped in `.hide()`: they work, their names are never offered
    #[serde(default)]
    pub hidden_cmds: Vec<String>,
    /// completers sit above optional / many / fallback instead of on the primitive
    #[serde(default)]
    pub completer_outer: bool,
    /// positionals (and valued items without a completer) carry `complete_shell(File)`: names
    /// collected before them must survive when the decorated item itself is absent
    #[serde(default)]
    pub shell_deco: bool,
    /// named items sit in `group_help` groups whose title is 1: empty, 2: blank - a group without
    /// a heading is still a group of ordinary items
    #[serde(default)]
    pub untitled_groups: u8,
}

fn untitled(p: &mut P, title: &str) {
    fn has_cmd_or_pos(p: &P) -> bool {
        if matches!(p, P::Cmd { .. } | P::Pos { .. }) {
            return true;
        }
        let mut r = false;
        p.children(&mut |c| r |= has_cmd_or_pos(c));
        r
    }
    match p {
        P::Cmd { inner, .. } => untitled(&mut inner.p, title),
        P::Seq(v) => {
            for x in v.iter_mut() {
                if has_cmd_or_pos(x) {
                    untitled(x, title);
                } else {
                    let me = x.clone();
                    *x = P::GroupHelp(me.bx(), DocSpec::plain(title));
                }
            }
        }
        P::Alt(v) | P::Choice(v) => v.iter_mut().for_each(|x| untitled(x, title)),
        P::Optional(x, _) | P::Many(x, _) | P::Some_(x, _) | P::Fallback(x, _, _) | P::FallbackWith(x, _) | P::Hide(x) | P::Map(x, _) => untitled(x, title),
        _ => {}
    }
}

fn add_shell(p: &mut P) {
    match p {
        P::Pos { .. } | P::Arg { .. } => {
            let me = p.clone();
            *p = P::CompleteShell(me.bx(), ShellK::File(None));
        }
        P::Cmd { inner, .. } => add_shell(&mut inner.p),
        P::Seq(v) | P::Alt(v) | P::Choice(v) | P::Adj(v) => v.iter_mut().for_each(add_shell),
        P::Complete(..) => {}
        P::Optional(x, _) | P::Many(x, _) | P::Some_(x, _) | P::Collect(x, _) | P::Count(x) | P::Last(x) | P::Fallback(x, _, _) | P::FallbackWith(x, _) | P::Hide(x) => add_shell(x),
        _ => {}
    }
}

fn decorate(p: &mut P, decor: u8, hidden_cmds: &[String]) {
    let leafish = |x: &P| matches!(x, P::Arg { .. } | P::ReqFlag(_) | P::Complete(..));
    match p {
        P::Many(x, c) if leafish(x) => {
            if decor == 1 {
                let inner = (**x).clone();
                *p = P::Optional(P::Some_(inner.bx(), false).bx(), false);
            } else if decor == 2 {
                *c = true;
            }
        }
        P::Optional(x, c) | P::Some_(x, c) if leafish(x) => {
            if decor == 2 {
                *c = true;
            }
        }
        P::Cmd { name, inner, .. } => {
            decorate(&mut inner.p, decor, hidden_cmds);
            if hidden_cmds.contains(name) {
                let me = p.clone();
                *p = P::Hide(me.bx());
            }
        }
        P::Seq(v) | P::Alt(v) | P::Choice(v) | P::Adj(v) => v.iter_mut().for_each(|x| decorate(x, decor, hidden_cmds)),
        P::Optional(x, _) | P::Many(x, _) | P::Some_(x, _) | P::Collect(x, _) | P::Count(x) | P::Last(x) | P::Fallback(x, _, _) | P::FallbackWith(x, _) | P::Guard(x, _) | P::Parse(x, _) | P::Map(x, _) | P::Hide(x) | P::HideUsage(x) => decorate(x, decor, hidden_cmds),
        _ => {}
    }
}

/// wrap selected argument leaves in `.complete(echo)`; with `outer` the completer is attached
/// above the item's optional / many / fallback wrapper (the placement the documentation
/// recommends) instead of directly on the primitive
fn add_completers(p: &mut P, which: &[String], outer: bool) {
    if outer {
        if let P::Optional(x, _) | P::Many(x, _) | P::Fallback(x, _, _) = p {
            if let P::Arg { names, .. } = &**x {
                if which.contains(&names.preferred()) {
                    let me = p.clone();
                    *p = P::Complete(me.bx(), CompK::Echo2 { descr: false }, None);
                    return;
                }
            }
        }
    }
    match p {
        P::Arg { names, .. } => {
            if which.contains(&names.preferred()) {
                let inner = p.clone();
                *p = P::Complete(inner.bx(), CompK::Echo2 { descr: false }, None);
            }
        }
        P::Cmd { inner, .. } => add_completers(&mut inner.p, which, outer),
        P::Seq(v) | P::Alt(v) | P::Choice(v) | P::Adj(v) => v.iter_mut().for_each(|x| add_completers(x, which, outer)),
        P::Optional(x, _) | P::Many(x, _) | P::Some_(x, _) | P::Collect(x, _) | P::Count(x) | P::Last(x) | P::Fallback(x, _, _) | P::FallbackWith(x, _) | P::Guard(x, _) | P::Parse(x, _) | P::Map(x, _) | P::Hide(x) | P::HideUsage(x) | P::CustomUsage(x, _) | P::GroupHelp(x, _) | P::WithGroupHelp(x, _) => add_completers(x, which, outer),
        _ => {}
    }
}

pub fn build_unit(u: &Unit) -> Opts {
    let mut o = u.level.to_opts();
    add_completers(&mut o.p, &u.completers, u.completer_outer);
    if u.shell_deco {
        add_shell(&mut o.p);
    }
    if u.decor != 0 || !u.hidden_cmds.is_empty() {
        decorate(&mut o.p, u.decor, &u.hidden_cmds);
    }
    if u.untitled_groups != 0 {
        untitled(&mut o.p, if u.untitled_groups == 1 { "" } else { "  " });
    }
    if u.fallback_with {
        // `fallback_with(|| Ok(v))` is the same parser as `fallback(v)`
        fn swap(p: &mut P) {
            if let P::Fallback(x, v, _) = p {
                let inner = (**x).clone();
                *p = P::FallbackWith(inner.bx(), Ok(v.clone()));
            }
            match p {
                P::Cmd { inner, .. } => swap(&mut inner.p),
                P::Seq(v) | P::Alt(v) | P::Choice(v) | P::Adj(v) => v.iter_mut().for_each(swap),
                P::Optional(x, _) | P::Many(x, _) | P::Some_(x, _) | P::Hide(x) | P::FallbackWith(x, _) | P::Complete(x, _, _) => swap(x),
                _ => {}
            }
        }
        swap(&mut o.p);
    }
    o
}

#[derive(Debug, Default)]
pub struct Rows {
    /// non-empty substitutions
    pub substs: Vec<String>,
    /// display texts of rows with an empty substitution (metavariable placeholders)
    pub metas: Vec<String>,
    pub echo_only: bool,
}

/// parse the revision-0 text
pub fn parse_rows(text: &str, typed: &str) -> Rows {
    let mut r = Rows::default();
    // requested shell completers follow the rows after an empty line (`File { mask: None }`):
    // they are C15's business, not candidates
    let text: String = match text.find("\n\n") {
        Some(i) if text[i + 2..].lines().all(|l| l.starts_with("File {") || l.starts_with("Dir {") || l.starts_with("Raw {") || l == "Nothing") => text[..i + 1].to_string(),
        _ => {
            if text.lines().all(|l| l.is_empty() || l.starts_with("File {") || l.starts_with("Dir {") || l.starts_with("Raw {") || l == "Nothing") && text.contains(" {") {
                String::new()
            } else {
                text.to_string()
            }
        }
    };
    let text = text.as_str();
    if text.is_empty() {
        return r;
    }
    if !text.contains('\t') {
        let t = text.trim_end_matches('\n');
        if text.ends_with('\n') && t == typed {
            // bpaf's "nothing to offer": the typed word echoed back
            r.echo_only = true;
        } else {
            r.substs.push(t.to_string());
        }
        return r;
    }
    for line in text.lines() {
        if line.is_empty() {
            break;
        }
        let cols: Vec<&str> = line.split('\t').collect();
        if cols[0].is_empty() {
            r.metas.push(cols.get(1).copied().unwrap_or("").to_string());
        } else {
            r.substs.push(cols[0].to_string());
        }
    }
    r
}

fn tok_kind(t: &str) -> (u8, String, Option<String>) {
    // 0 word, 1 long(name, value), 2 short item, 9 separator
    if t == "--" {
        return (9, String::new(), None);
    }
    if let Some(r) = t.strip_prefix("--") {
        if let Some((n, v)) = r.split_once('=') {
            return (1, n.to_string(), Some(v.to_string()));
        }
        return (1, r.to_string(), None);
    }
    if t.len() >= 2 && t.starts_with('-') {
        // `-s=value`
        let body = &t[1..];
        let mut cs = body.chars();
        if let (Some(c), Some('=')) = (cs.next(), cs.next()) {
            return (2, c.to_string(), Some(cs.collect()));
        }
        return (2, body.to_string(), None);
    }
    (0, t.to_string(), None)
}

struct Scan<'a> {
    lvl: &'a Level,
    anc: Vec<&'a Level>,
    used: Vec<usize>,
    words: usize,
    /// the previous item is an argument name still waiting for its value: index of the item
    pending: Option<usize>,
}

/// scan everything before the typed word; None = outside what the model judges
fn scan<'a>(root: &'a Level, pre: &[&str]) -> Option<Scan<'a>> {
    let mut s = Scan { lvl: root, anc: vec![], used: vec![0; root.named.len()], words: 0, pending: None };
    let mut i = 0;
    while i < pre.len() {
        let (k, a, b) = tok_kind(pre[i]);
        match k {
            0 => {
                if let Tail::Cmds { .. } = &s.lvl.tail {
                    if s.words == 0 {
                        if let Some(c) = s.lvl.find_cmd(a.as_bytes()) {
                            // a surplus occurrence left of the name: the command is not the
                            // first unclaimed item, the line is malformed - not judged
                            if s.used.iter().zip(s.lvl.named.iter()).any(|(u, nm)| nm.kind.single() && *u > 1) {
                                return None;
                            }
                            s.anc.push(s.lvl);
                            s.lvl = &c.level;
                            s.used = vec![0; s.lvl.named.len()];
                            s.words = 0;
                            i += 1;
                            continue;
                        }
                    }
                    return None;
                }
                s.words += 1;
                i += 1;
            }
            1 | 2 => {
                let ix = if k == 1 {
                    s.lvl.find_named(None, Some(a.as_str()))?
                } else {
                    let mut cs = a.chars();
                    let c = cs.next()?;
                    if cs.next().is_some() {
                        return None; // clusters / attached values: not judged
                    }
                    s.lvl.find_named(Some(c), None)?
                };
                let is_arg = s.lvl.named[ix].kind.is_arg();
                if is_arg && b.is_none() {
                    if i + 1 < pre.len() {
                        if tok_kind(pre[i + 1]).0 != 0 {
                            return None;
                        }
                        s.used[ix] += 1;
                        i += 2;
                        continue;
                    } else {
                        s.pending = Some(ix);
                        s.used[ix] += 1;
                        i += 1;
                        continue;
                    }
                }
                if !is_arg && b.is_some() {
                    return None;
                }
                s.used[ix] += 1;
                i += 1;
            }
            _ => return None,
        }
    }
    if s.used.iter().zip(s.lvl.named.iter()).any(|(u, nm)| nm.kind.single() && *u > 1) {
        return None;
    }
    Some(s)
}

fn matches_typed(nm: &Names, typed: &str) -> bool {
    if typed.is_empty() || typed == "-" {
        return true;
    }
    if let Some(r) = typed.strip_prefix("--") {
        return nm.longs.first().map_or(false, |l| l.starts_with(r));
    }
    if let Some(r) = typed.strip_prefix('-') {
        let mut cs = r.chars();
        return match (cs.next(), cs.next()) {
            (Some(c), None) => nm.shorts.first() == Some(&c),
            _ => false,
        };
    }
    false
}

fn viol(rule: &str, u: &Unit, unit: &Value, argv: &[Tok], via: &str, expected: String, observed: &str) -> Violation {
    let mut sig = BTreeMap::new();
    sig.insert("def".to_string(), crate::checks::c01::sig_level(&u.level));
    sig.insert("clause".to_string(), rule.to_string());
    sig.insert("completers".to_string(), (!u.completers.is_empty()).to_string());
    Violation { property: "C14".into(), rule: rule.into(), sig, unit: unit.clone(), case: json!({"argv": argv, "via": via}), expected, observed: observed.chars().take(600).collect(), size: argv.len() * 1000 + argv.iter().map(|t| t.0.len()).sum::<usize>() }
}

pub fn judge(u: &Unit, unit: &Value, p: &bpaf::OptionParser<Val>, argv: &[Tok], via_marker: bool, ctx: &mut Ctx) {
    let via = if via_marker { "marker" } else { "set_comp" };
    let r = if via_marker {
        let mut v = argv.to_vec();
        v.insert(0, Tok::s("--bpaf-complete-rev=0"));
        run(p, &v)
    } else {
        run_comp(p, argv, 0, None)
    };
    // (a) always completion output
    let text = match &r {
        Outcome::Completion(t) => t.clone(),
        o => {
            ctx.violation(viol("always-completion-output", u, unit, argv, via, "completion output".into(), &o.brief()));
            return;
        }
    };
    let strs: Vec<String> = argv.iter().map(|t| t.lossy()).collect();
    let typed = strs[strs.len() - 1].as_str();
    let pre: Vec<&str> = strs[..strs.len() - 1].iter().map(|s| s.as_str()).collect();
    if pre.contains(&"--") {
        // right of the separator everything is positional data: no option or command name may
        // be offered, whatever has been typed after it
        let rows = parse_rows(&text, typed);
        let mut names: Vec<String> = vec![];
        u.level.walk(
            &mut |l, _| {
                for n in &l.named {
                    names.extend(n.names.shorts.iter().map(|c| format!("-{}", c)));
                    names.extend(n.names.longs.iter().map(|c| format!("--{}", c)));
                }
                if let Tail::Cmds { cmds, .. } = &l.tail {
                    names.extend(cmds.iter().map(|c| c.name.clone()));
                }
            },
            0,
        );
        names.push("--help".into());
        names.push("--version".into());
        match rows.substs.iter().find(|sb| names.contains(sb) && sb.as_str() != typed) {
            Some(sb) => ctx.violation(viol("nothing-but-positional-data-after-the-separator", u, unit, argv, via, format!("no option or command name offered right of `--` (got {})", sb), &text)),
            None => {
                ctx.count("lines-right-of-the-separator-judged");
                ctx.s.validated += 1;
            }
        }
        return;
    }
    let s = match scan(&u.level, &pre) {
        Some(s) => s,
        None => {
            ctx.s.skipped += 1;
            return;
        }
    };
    let rows = parse_rows(&text, typed);
    let lvl = s.lvl;
    let has_comp = |n: &Named| u.completers.contains(&n.names.preferred());
    // typed `--name=pre`: value of that argument is being typed
    let (tk, ta, tb) = tok_kind(typed);
    let inline_arg: Option<usize> = if tk == 1 && tb.is_some() { lvl.find_named(None, Some(ta.as_str())).filter(|ix| lvl.named[*ix].kind.is_arg()) } else { None };
    if tk == 1 && tb.is_some() && inline_arg.is_none() {
        ctx.s.skipped += 1;
        return;
    }
    // a pending argument name followed by a word carrying `=`, or a second value for a
    // single-use item that was already given: malformed lines the property does not speak about
    if s.pending.is_some() && tb.is_some() {
        ctx.s.skipped += 1;
        return;
    }
    if let Some(ix) = inline_arg {
        if lvl.named[ix].kind.single() && s.used[ix] >= 1 {
            ctx.s.skipped += 1;
            return;
        }
    }
    let value_of: Option<(usize, String, String)> = match (s.pending, inline_arg) {
        (Some(ix), _) => Some((ix, typed.to_string(), String::new())),
        (None, Some(ix)) => Some((ix, tb.clone().unwrap(), format!("--{}=", ta))),
        _ => None,
    };
    // ---- (b) soundness -------------------------------------------------------------------
    let mut allowed: Vec<String> = vec![];
    let value_position = value_of.is_some();
    let names_possible = !value_position || (s.pending.is_some() && typed.starts_with('-'));
    if names_possible {
        for l in s.anc.iter().chain(std::iter::once(&lvl)) {
            for nm in &l.named {
                if !nm.hidden && matches_typed(&nm.names, typed) && nm.names.has_name() {
                    allowed.push(nm.names.preferred());
                }
            }
        }
        if let Tail::Cmds { cmds, .. } = &lvl.tail {
            for c in cmds {
                if u.hidden_cmds.contains(&c.name) {
                    continue;
                }
                if c.name.starts_with(typed) || c.shorts.first().map_or(false, |sc| typed == sc.to_string()) {
                    allowed.push(c.name.clone());
                }
            }
        }
    }
    if let Some((ix, val, prefix)) = &value_of {
        // values for the item the user is typing may be offered even when the item is hidden
        // (its name was typed by the user, not suggested); they are demanded only for visible ones
        if has_comp(&lvl.named[*ix]) {
            allowed.push(format!("{}{}1", prefix, val));
            allowed.push(format!("{}{}2", prefix, val));
        }
    }
    for sb in &rows.substs {
        if !allowed.contains(sb) {
            ctx.violation(viol("candidates-are-visible-matching-names-or-completer-values", u, unit, argv, via, format!("every candidate is one of {:?} or a metavariable placeholder", allowed), &text));
            return;
        }
    }
    // hidden items never offered (also not as a placeholder named after them) — covered by
    // `allowed`; names that belong only to commands not entered likewise
    // ---- (c) completeness ----------------------------------------------------------------
    if !value_position {
        for (nm, used) in lvl.named.iter().zip(s.used.iter()) {
            if nm.hidden || !nm.names.has_name() {
                continue;
            }
            if nm.kind.single() && *used >= 1 {
                continue;
            }
            if matches_typed(&nm.names, typed) && !rows.substs.contains(&nm.names.preferred()) {
                ctx.violation(viol("every-applicable-visible-name-offered", u, unit, argv, via, format!("{} offered (visible, matches {:?}, not given yet)", nm.names.preferred(), typed), &text));
                return;
            }
        }
        if let Tail::Cmds { cmds, .. } = &lvl.tail {
            if s.words == 0 && !typed.starts_with('-') {
                for c in cmds {
                    if u.hidden_cmds.contains(&c.name) {
                        continue;
                    }
                    if c.name.starts_with(typed) && !rows.substs.contains(&c.name) {
                        ctx.violation(viol("every-applicable-visible-name-offered", u, unit, argv, via, format!("command {} offered", c.name), &text));
                        return;
                    }
                }
            }
        }
    } else if let Some((ix, val, prefix)) = &value_of {
        // the user's completer is consulted for the item being typed
        if has_comp(&lvl.named[*ix]) && !lvl.named[*ix].hidden && !(s.pending.is_some() && typed.starts_with('-')) {
            for k in ["1", "2"] {
                let want = format!("{}{}{}", prefix, val, k);
                if !rows.substs.contains(&want) {
                    ctx.violation(viol("completer-values-offered-for-the-item-being-typed", u, unit, argv, via, format!("{} offered", want), &text));
                    return;
                }
            }
        }
    }
    ctx.s.validated += 1;
    if !rows.substs.is_empty() || !rows.metas.is_empty() {
        ctx.s.nontrivial += 1;
    }
    if value_position {
        ctx.count("value-positions-judged");
    }
    if !s.anc.is_empty() {
        ctx.count("lines-inside-a-subcommand-judged");
    }
    if ctx.wants_sample() && argv.len() >= 2 && rows.substs.len() >= 2 {
        ctx.sample(|| json!({"def": crate::checks::c01::sig_level(&u.level), "argv": argv, "candidates": rows.substs, "placeholders": rows.metas}));
    }
}

const TYPED: [&str; 18] = ["", "-", "--", "--a", "--al", "--alpha", "--b", "-a", "-b", "c", "cm", "cmd", "o", "v", "--e", "-e", "--alpha=", "--alpha=v"];

// ------------------------------------------------------------------------------------------
// a choice between a positional and a named item (`FILE | --list`), at the top level behind a
// switch and inside a sub-command: the name must be offered on a fresh item wherever the choice
// is evaluated
// ------------------------------------------------------------------------------------------
fn altpos_opts(in_cmd: bool) -> Opts {
    let choice = P::Alt(vec![P::Map(P::Pos { ty: Ty::Str, strict: Strict::Any, metavar: "FILE".into(), help: None }.bx(), "f".into()), P::Map(P::ReqFlag(Names::long("list")).bx(), "l".into())]);
    let level = Opts::new(P::Seq(vec![P::Switch(Names::both('v', "verbose")), choice]));
    if in_cmd {
        Opts::new(P::Seq(vec![P::Switch(Names::short('q')), P::cmd("show", level)]))
    } else {
        level
    }
}

fn run_altpos(in_cmd: bool, unit: &Value, only: Option<&[Tok]>, ctx: &mut Ctx) {
    let p = match build_checked(&altpos_opts(in_cmd)) {
        Ok(p) => p,
        Err(_) => return,
    };
    let pres: Vec<Vec<&str>> = if in_cmd { vec![vec!["show"], vec!["show", "-v"], vec!["-q", "show"], vec!["show", "--verbose"]] } else { vec![vec![], vec!["-v"], vec!["--verbose"]] };
    for pre in pres {
        for typed in ["", "-", "--", "--l", "--li", "--list"] {
            let mut argv: Vec<Tok> = pre.iter().map(|s| Tok::s(s)).collect();
            argv.push(Tok::s(typed));
            if let Some(o) = only {
                if o != argv.as_slice() {
                    continue;
                }
            }
            ctx.begin_case(|| json!({"argv": argv}));
            ctx.s.evaluations += 1;
            ctx.s.states += 1;
            let text = match run_comp(&p, &argv, 0, None) {
                Outcome::Completion(t) => t,
                o => {
                    let mut sig = BTreeMap::new();
                    sig.insert("clause".to_string(), "always-completion-output".to_string());
                    ctx.violation(Violation { property: "C14".into(), rule: "always-completion-output".into(), sig, unit: unit.clone(), case: json!({"argv": argv}), expected: "completion output".into(), observed: o.brief(), size: argv.len() * 1000 });
                    continue;
                }
            };
            let rows = parse_rows(&text, typed);
            // `--list` typed in full is echoed or offered; every shorter prefix must offer it
            if rows.substs.iter().any(|s| s == "--list") || (typed == "--list" && (rows.echo_only || rows.substs.is_empty())) {
                ctx.count("choice-of-positional-and-name-judged");
                ctx.s.nontrivial += 1;
                ctx.s.validated += 1;
            } else {
                let mut sig = BTreeMap::new();
                sig.insert("clause".to_string(), "every-applicable-visible-name-offered".to_string());
                sig.insert("def".to_string(), if in_cmd { "[FILE | --list] inside a command" } else { "[FILE | --list] behind a switch" }.to_string());
                ctx.violation(Violation { property: "C14".into(), rule: "every-applicable-visible-name-offered".into(), sig, unit: unit.clone(), case: json!({"argv": argv}), expected: "--list offered (visible, matches, not given)".into(), observed: text.chars().take(300).collect(), size: argv.len() * 1000 });
            }
        }
    }
}

// ------------------------------------------------------------------------------------------
// an optional adjacent group (--point -x X) among ordinary switches: once a complete line has
// been typed (the group written out in full or not at all), every ordinary name that is not
// given yet and extends the typed word is offered, whatever the line ends in
// ------------------------------------------------------------------------------------------
fn adjgroup_opts(in_cmd: bool) -> Opts {
    let group = P::Adj(vec![P::ReqFlag(Names::long("point")), P::Arg { names: Names::short('x'), ty: Ty::Os, adjacent: false, metavar: "X".into() }]).opt();
    let level = Opts::new(P::Seq(vec![P::Switch(Names::long("verbose")), P::Switch(Names::long("alpha")), group]));
    if in_cmd {
        Opts::new(P::Seq(vec![P::Switch(Names::short('q')), P::cmd("sub", level)]))
    } else {
        level
    }
}

fn run_adjgroup(in_cmd: bool, unit: &Value, only: Option<&[Tok]>, ctx: &mut Ctx) {
    let p = match build_checked(&adjgroup_opts(in_cmd)) {
        Ok(p) => p,
        Err(_) => return,
    };
    let alpha: Vec<Tok> = ["--verbose", "--alpha", "--point", "-x", "1", "-x=1"].iter().map(|s| Tok::s(s)).collect();
    let head: Vec<Tok> = if in_cmd { vec![Tok::s("sub")] } else { vec![] };
    tree(&alpha, 4, &mut |pre| {
        let mut line = head.clone();
        line.extend(pre.iter().cloned());
        // only complete lines: the typed part parses on its own
        if !matches!(run(&p, &line), Outcome::Value(_)) {
            return true;
        }
        for typed in ["", "-", "--", "--a", "--al", "--alpha", "--v", "--verb"] {
            let mut argv = line.clone();
            argv.push(Tok::s(typed));
            if let Some(o) = only {
                if o != argv.as_slice() {
                    continue;
                }
            }
            ctx.begin_case(|| json!({"argv": argv}));
            ctx.s.evaluations += 1;
            ctx.s.states += 1;
            let text = match run_comp(&p, &argv, 0, None) {
                Outcome::Completion(t) => t,
                o => {
                    let mut sig = BTreeMap::new();
                    sig.insert("clause".to_string(), "always-completion-output".to_string());
                    ctx.violation(Violation { property: "C14".into(), rule: "always-completion-output".into(), sig, unit: unit.clone(), case: json!({"argv": argv}), expected: "completion output".into(), observed: o.brief(), size: argv.len() * 1000 });
                    continue;
                }
            };
            let rows = parse_rows(&text, typed);
            let mut missing = vec![];
            for name in ["--verbose", "--alpha"] {
                let given = pre.iter().any(|t| t.lossy() == name);
                if given || !name.starts_with(typed) {
                    continue;
                }
                let offered = rows.substs.iter().any(|s| s == name) || (typed == name && (rows.echo_only || rows.substs.is_empty()));
                if !offered {
                    missing.push(name);
                }
            }
            if missing.is_empty() {
                ctx.count("lines-around-an-adjacent-group-judged");
                ctx.s.nontrivial += 1;
                ctx.s.validated += 1;
            } else {
                let mut sig = BTreeMap::new();
                sig.insert("clause".to_string(), "every-applicable-visible-name-offered".to_string());
                sig.insert("def".to_string(), if in_cmd { "switches beside an optional adjacent group, inside a command" } else { "switches beside an optional adjacent group" }.to_string());
                ctx.violation(Violation { property: "C14".into(), rule: "every-applicable-visible-name-offered".into(), sig, unit: unit.clone(), case: json!({"argv": argv}), expected: format!("{} offered (visible, matches, not given)", missing.join(", ")), observed: text.chars().take(300).collect(), size: argv.len() * 1000 });
            }
        }
        true
    });
}

// ------------------------------------------------------------------------------------------
// an argument backed by an environment variable that IS set: its name has not been given on the
// line, so it is still offered
// ------------------------------------------------------------------------------------------
const ENV14: &str = "BPAFMC_C14";
fn envarg_opts(k: usize) -> Opts {
    let key = P::Arg { names: Names::long("key").env(ENV14), ty: Ty::Os, adjacent: false, metavar: "KEY".into() };
    let key = match k {
        0 => key,
        1 => key.opt(),
        _ => key.many(),
    };
    Opts::new(P::Seq(vec![key, P::Switch(Names::long("keep"))]))
}

fn run_envarg(k: usize, unit: &Value, only: Option<&[Tok]>, ctx: &mut Ctx) {
    let p = match build_checked(&envarg_opts(k)) {
        Ok(p) => p,
        Err(_) => return,
    };
    for set in [false, true] {
        if set {
            std::env::set_var(ENV14, "from-env");
        } else {
            std::env::remove_var(ENV14);
        }
        for pre in [vec![], vec!["--keep"]] {
            for typed in ["", "-", "--", "--k", "--ke", "--key"] {
                let mut argv: Vec<Tok> = pre.iter().map(|s| Tok::s(s)).collect();
                argv.push(Tok::s(typed));
                if only.map_or(false, |o| o != argv.as_slice()) {
                    continue;
                }
                ctx.begin_case(|| json!({"argv": argv, "set": set}));
                ctx.s.evaluations += 1;
                ctx.s.states += 1;
                let text = match run_comp(&p, &argv, 0, None) {
                    Outcome::Completion(t) => t,
                    _ => continue,
                };
                let rows = parse_rows(&text, typed);
                let offered = rows.substs.iter().any(|s| s == "--key") || (typed == "--key" && (rows.echo_only || rows.substs.is_empty()));
                if offered {
                    ctx.s.nontrivial += 1;
                    ctx.count("env-backed-names-judged");
                } else {
                    let mut sig = BTreeMap::new();
                    sig.insert("clause".to_string(), "every-applicable-visible-name-offered".to_string());
                    sig.insert("def".to_string(), format!("env-backed argument (variable {})", if set { "set" } else { "unset" }));
                    ctx.violation(Violation { property: "C14".into(), rule: "every-applicable-visible-name-offered".into(), sig, unit: unit.clone(), case: json!({"argv": argv, "set": set}), expected: "--key offered (visible, matches, not given on the line)".into(), observed: text.chars().take(300).collect(), size: argv.len() * 1000 });
                }
            }
        }
    }
    std::env::remove_var(ENV14);
}

impl Check for C14 {
    fn id(&self) -> &'static str {
        "C14"
    }
    fn level(&self) -> &'static str {
        "model_checking"
    }
    fn units(&self, tier: Tier, seed: u64) -> Vec<Value> {
        let _ = seed; // names are fixed so that the typed-word alphabet matches them
        let mut out = vec![];
        let mut tails = vec![Tail::None];
        tails.extend(fam::pos_tails().into_iter().take(3));
        tails.extend(fam::cmd_tails(0, true, true));
        // sibling commands one of whose names is a prefix of the other; long names likewise
        {
            let sub = |slot: usize| fam::leaf(vec![fam::named(slot, Kind::Switch, 0, 0)], Tail::None);
            let c = |n: &str, slot: usize| CmdDef { name: n.into(), shorts: vec![], longs: vec![], level: sub(slot) };
            tails.push(Tail::Cmds { cmds: vec![c("cmd", 4), c("cmdx", 5)], wrap: CmdWrap::Required });
            tails.push(Tail::Cmds { cmds: vec![c("cmdx", 5), c("cmd", 4)], wrap: CmdWrap::Optional });
        }
        let mut j = 0usize;
        for mut l in fam::conventional(2, &tails, 0) {
            j += 1;
            // every third definition hides its first item, every second gets completers
            if j % 3 == 0 && !l.named.is_empty() {
                l.named[0].hidden = true;
            }
            let completers: Vec<String> = if j % 2 == 0 { l.named.iter().filter(|n| n.kind.is_arg()).map(|n| n.names.preferred()).collect() } else { vec![] };
            // every fifth definition hides one of its commands; decorations rotate
            let hidden_cmds: Vec<String> = match &l.tail {
                Tail::Cmds { cmds, .. } if j % 5 == 0 => vec![cmds[(j / 5) % cmds.len()].name.clone()],
                _ => vec![],
            };
            out.push(serde_json::to_value(Unit { level: l, len: tier.pick(2, 3), completers, fallback_with: j % 4 == 1, decor: if j % 4 == 2 { 0 } else { (j % 3) as u8 }, hidden_cmds, completer_outer: j % 4 == 2, shell_deco: j % 6 == 1, untitled_groups: if j % 7 == 3 { 1 } else if j % 7 == 5 { 2 } else { 0 } }).unwrap());
        }
        // non-ASCII short and long names
        for k1 in [Kind::Switch, Kind::ArgOpt, Kind::Count] {
            for k2 in [Kind::ArgReq, Kind::ReqFlag] {
                let a = Named { names: Names::both('ä', "änderung"), kind: k1, hidden: false, ty: Ty::Os, adjacent: false, guarded: false };
                let b = Named { names: Names::short('ß'), kind: k2, hidden: false, ty: Ty::Os, adjacent: false, guarded: false };
                out.push(serde_json::to_value(Unit { level: fam::leaf(vec![a, b], Tail::None), len: tier.pick(2, 3), completers: vec![], fallback_with: false, decor: 0, hidden_cmds: vec![], completer_outer: false, shell_deco: false, untitled_groups: 0 }).unwrap());
            }
        }
        // a command whose one-letter alias is the first letter of a sibling's name (the typed
        // word `c` is the alias of one and a prefix of both); a command holding an item with the
        // names of an item of the enclosing level
        {
            let sub = |slot: usize| fam::leaf(vec![fam::named(slot, Kind::Switch, 0, 0)], Tail::None);
            for wrap in [CmdWrap::Required, CmdWrap::Optional] {
                for order in 0..2 {
                    let check = CmdDef { name: "check".into(), shorts: vec!['c'], longs: vec![], level: sub(4) };
                    let clean = CmdDef { name: "clean".into(), shorts: vec![], longs: vec![], level: sub(5) };
                    let cmds = if order == 0 { vec![check, clean] } else { vec![clean, check] };
                    let l = fam::leaf(vec![fam::named(0, Kind::Switch, 1, 0)], Tail::Cmds { cmds, wrap });
                    out.push(serde_json::to_value(Unit { level: l, len: tier.pick(2, 3), completers: vec![], fallback_with: false, decor: 0, hidden_cmds: vec![], completer_outer: false, shell_deco: false, untitled_groups: 0 }).unwrap());
                }
            }
            for k in [Kind::Switch, Kind::Count] {
                let same = |kind: Kind| Named { names: Names::both('v', "verbose"), kind, hidden: false, ty: Ty::Os, adjacent: false, guarded: false };
                let other = Named { names: Names::long("input"), kind: Kind::ArgOpt, hidden: false, ty: Ty::Os, adjacent: false, guarded: false };
                let inner = fam::leaf(vec![same(k), other], Tail::None);
                let l = fam::leaf(vec![same(Kind::Switch)], Tail::Cmds { cmds: vec![CmdDef { name: "check".into(), shorts: vec![], longs: vec![], level: inner }], wrap: CmdWrap::Required });
                out.push(serde_json::to_value(Unit { level: l, len: tier.pick(3, 4), completers: vec![], fallback_with: false, decor: 0, hidden_cmds: vec![], completer_outer: false, shell_deco: false, untitled_groups: 0 }).unwrap());
            }
        }
        for k in 0..3 {
            out.push(json!({"envarg": k}));
        }
        // a command level with fallback_to_usage below a switch of the enclosing level (the switch
        // may be typed behind the command name)
        {
            let v = Named { names: Names::long("verbose"), kind: Kind::Switch, hidden: false, ty: Ty::Os, adjacent: false, guarded: false };
            let mut sub = fam::leaf(vec![fam::named(4, Kind::Switch, 0, 0)], fam::pos(&[PosKind::Req]));
            sub.usage_fallback = true;
            let l = fam::leaf(vec![v], Tail::Cmds { cmds: vec![CmdDef { name: "cmd".into(), shorts: vec![], longs: vec![], level: sub }], wrap: CmdWrap::Required });
            out.push(serde_json::to_value(Unit { level: l, len: tier.pick(2, 3), completers: vec![], fallback_with: false, decor: 0, hidden_cmds: vec![], completer_outer: false, shell_deco: false, untitled_groups: 0 }).unwrap());
        }
        // the first item's long name is a prefix of a later item's (`--num`, `--num-threads`)
        for k1 in [Kind::ArgReq, Kind::ArgOpt, Kind::Switch] {
            for k2 in [Kind::Switch, Kind::ArgOpt] {
                let a = Named { names: Names::long("num"), kind: k1, hidden: false, ty: Ty::U32, adjacent: false, guarded: false };
                let b = Named { names: Names::long("num-threads"), kind: k2, hidden: false, ty: Ty::Os, adjacent: false, guarded: false };
                let v = Named { names: Names::long("verbose"), kind: Kind::Switch, hidden: false, ty: Ty::Os, adjacent: false, guarded: false };
                out.push(serde_json::to_value(Unit { level: fam::leaf(vec![a, v, b], Tail::None), len: tier.pick(2, 3), completers: vec![], fallback_with: false, decor: 0, hidden_cmds: vec![], completer_outer: false, shell_deco: false, untitled_groups: 0 }).unwrap());
            }
        }
        out.push(json!({"adjgroup": false}));
        out.push(json!({"adjgroup": true}));
        out.push(json!({"altpos": false}));
        out.push(json!({"altpos": true}));
        out
    }
    fn run_unit(&self, unit: &Value, ctx: &mut Ctx) {
        if let Some(b) = unit.get("altpos") {
            run_altpos(b.as_bool() == Some(true), unit, None, ctx);
            return;
        }
        if let Some(b) = unit.get("adjgroup") {
            run_adjgroup(b.as_bool() == Some(true), unit, None, ctx);
            return;
        }
        if let Some(k) = unit.get("envarg").and_then(|k| k.as_u64()) {
            run_envarg(k as usize, unit, None, ctx);
            return;
        }
        let u: Unit = serde_json::from_value(unit.clone()).unwrap();
        let p = match build_checked(&build_unit(&u)) {
            Ok(p) => p,
            Err(_) => return,
        };
        // the typed part: every declared spelling the reference scan understands, one word,
        // command names and one foreign item (lines with it are only held to clause (a))
        let mut alpha: Vec<Tok> = alphabet(&u.level, AlphaStyle::Compact).into_iter().filter(|t| {
            let s = t.lossy();
            s != "--zz" && s != "w" && !(s.starts_with('-') && !s.starts_with("--") && s.len() > 2)
        }).collect();
        // a word that is not valid UTF-8 (a file name) among the already typed items
        alpha.push(Tok(vec![b'f', 0xff, 0xfe]));
        alpha.sort();
        let mut typed: Vec<Tok> = TYPED.iter().map(|s| Tok::s(s)).collect();
        // typed words derived from the definition: every prefix of every visible name
        u.level.walk(
            &mut |l, _| {
                for n in &l.named {
                    if let Some(lg) = n.names.longs.first() {
                        for k in (0..=lg.len()).filter(|k| lg.is_char_boundary(*k)) {
                            typed.push(Tok::s(&format!("--{}", &lg[..k])));
                        }
                        if n.kind.is_arg() {
                            typed.push(Tok::s(&format!("--{}=", lg)));
                            typed.push(Tok::s(&format!("--{}=pre", lg)));
                        }
                    }
                    if let Some(s) = n.names.shorts.first() {
                        typed.push(Tok::s(&format!("-{}", s)));
                    }
                }
            },
            0,
        );
        typed.sort();
        typed.dedup();
        tree(&alpha, u.len, &mut |pre| {
            for t in &typed {
                let mut argv = pre.to_vec();
                argv.push(t.clone());
                ctx.begin_case(|| json!({"argv": argv}));
                ctx.s.evaluations += 1;
                ctx.s.states += 1;
                ctx.s.transitions += 1;
                judge(&u, unit, &p, &argv, false, ctx);
                if pre.len() <= 1 {
                    ctx.s.evaluations += 1;
                    judge(&u, unit, &p, &argv, true, ctx);
                }
            }
            true
        });
    }
    fn replay(&self, unit: &Value, case: &Value, ctx: &mut Ctx) {
        if let Some(b) = unit.get("altpos") {
            let argv: Vec<Tok> = serde_json::from_value(case["argv"].clone()).unwrap_or_default();
            run_altpos(b.as_bool() == Some(true), unit, Some(&argv), ctx);
            return;
        }
        if let Some(b) = unit.get("adjgroup") {
            let argv: Vec<Tok> = serde_json::from_value(case["argv"].clone()).unwrap_or_default();
            run_adjgroup(b.as_bool() == Some(true), unit, Some(&argv), ctx);
            return;
        }
        if let Some(k) = unit.get("envarg").and_then(|k| k.as_u64()) {
            let argv: Vec<Tok> = serde_json::from_value(case["argv"].clone()).unwrap_or_default();
            run_envarg(k as usize, unit, Some(&argv), ctx);
            return;
        }
        let u: Unit = serde_json::from_value(unit.clone()).unwrap();
        let argv: Vec<Tok> = serde_json::from_value(case["argv"].clone()).unwrap_or_default();
        if let Ok(p) = build_checked(&build_unit(&u)) {
            ctx.s.evaluations += 1;
            judge(&u, unit, &p, &argv, case["via"].as_str() == Some("marker"), ctx);
        }
    }
    fn rule(&self) -> String {
        "definitions = conventional levels (<=2 named items of all 10 kinds, naming styles incl. aliases; tails none / positionals / command trees of depth 3 with aliases, optional and defaulted choices); every third definition hides its first item, every fourth writes its defaults with fallback_with, every fifth wraps one of its sub-commands in hide(), repeated items are written many() / some(msg).optional() / many().catch() in rotation (optional items with and without catch()), a few use non-ASCII names, every second attaches an echoing completer (input+\"1\", input+\"2\") to every argument - half of them on the primitive, half above its optional / many / fallback wrapper; inputs = every vector of the token tree (incl. a non-UTF-8 word) as the already typed part x every typed last word from {empty, -, --, every prefix of every long name, every short name, --name=, --name=pre, command prefixes, plain words}; revision 0 through set_comp and (for short lines) through the --bpaf-complete-rev=0 marker; (a) the outcome is completion output for every line; (b) every candidate is the preferred spelling of a visible matching name of the active or an enclosing level, a value of the completer of the item being typed, or a metavariable placeholder - never a hidden item or a name below a command not entered; (c) on a fresh prefix every visible name of the active level that extends it and is not already given (single-use) is offered, commands when no word precedes, completer values for the item being typed; the active level / given set / pending value come from a reference scan of the typed part; right of `--` no option or command name may be offered whatever was typed; a choice between a positional and a named item (FILE | --list) behind a switch and inside a command must offer the name on every fresh prefix of it; lines the scan cannot classify (unknown names, clusters, separator) are only held to (a); state = (definition, line); every seventh definition puts its named items into group_help groups with an empty or blank title; switches beside an optional adjacent group (--point -x X), top level and inside a command: after every complete line of <=4 items every switch not given yet that extends the typed word is offered; sibling commands where the one-letter alias of one is the first letter of the other's name; a command holding an item with the names of an item of the enclosing level; an argument backed by an environment variable (required / optional / many), variable unset and set: its name is offered on every fresh prefix".into()
    }
    fn bounds(&self, tier: Tier) -> Value {
        json!({"typed_part_length": tier.pick(2, 3), "typed_words": "18 fixed + all prefixes of all names"})
    }
}
