//! C13 — console rendering never loses text and respects the width.
use crate::def::*;
use crate::run::*;
use crate::sup::*;
use serde::{Deserialize, Serialize};
use serde_json::{json, Value};
use std::collections::BTreeMap;

pub struct C13;

#[derive(Serialize, Deserialize, Clone)]
pub struct Unit {
    pub skeleton: usize,
    /// fragment indices of the strings handled by this unit share this prefix
    pub first: usize,
    pub max_frags: usize,
    pub widths: Vec<usize>,
    #[serde(default)]
    pub styled: bool,
    /// value of the variable behind the env-backed item of skeleton 9 (shown in its row)
    #[serde(default)]
    pub env: Option<String>,
    /// the unit handles the fixed paragraphs instead of the fragment strings
    #[serde(default)]
    pub paragraphs: bool,
}

/// paragraphs long enough to fill lines at every width, made of short breakable words that each
/// carry characters whose width is easy to get wrong (every one of them counts as one column)
pub fn paragraphs() -> Vec<String> {
    let mut out = vec![];
    for unit in ["a\tb", "\u{7}c", "\u{1b}[1md", "e\u{1}", "é\u{a0}f", "日本", "g\u{200b}h", "\u{301}i"] {
        out.push(std::iter::repeat(unit).take(90).collect::<Vec<_>>().join(" "));
    }
    // all of them mixed
    let mixed = ["a\tb", "\u{7}c", "\u{1b}[1md", "e\u{1}", "日本", "pl", "é"];
    out.push((0..120).map(|i| mixed[i % mixed.len()]).collect::<Vec<_>>().join(" "));
    // one long fragment of each style (a quoted invalid value can be a whole sentence)
    for sty in 0..4 {
        out.push(format!("{}{}{}", WHOLE, sty, std::iter::repeat("wörd of it").take(40).collect::<Vec<_>>().join(" ")));
    }
    out
}

pub const FRAGS: [&str; 13] = ["word", "WwwwwwwwwwwwwwwwwwwwwwwwwwwwwwwwwwwwwwwwwwwwwwwwwwwwwwwwwwwwwwwwwwwwwwwwwwwwwwwwwwwwwwwwwwwwwwwwwwwwwwwwwwwwwwwwwwwwwwwwwW", " ", "\n", "\n\n", "\n ", "\n    codeline", "é", "日本語", "\t", "\u{a0}", "\u{1b}[1m", "--flag"];
pub const SKELETONS: usize = 13;
const UNWRAPPED: usize = 65535;

fn long_name(n: usize) -> String {
    let mut s = String::from("n");
    while s.len() < n {
        s.push(if s.len() % 5 == 4 { '-' } else { 'x' });
    }
    if s.ends_with('-') {
        s.pop();
        s.push('y');
    }
    s
}

/// the definition with `text` in the slot the skeleton exercises
/// fragment separator of the styled mode: the text is a sequence of separately styled tokens
/// (text, literal, emphasis, text, ..) instead of one plain string
pub const SEP: char = '\u{1f}';
/// the same with another rotation of styles: nested document, text, nested document, emphasis
pub const SEP2: char = '\u{1e}';

/// a text starting with this character and a digit is ONE fragment of style text / literal /
/// emphasis / invalid (the digit), however long it is
pub const WHOLE: char = '\u{1d}';

fn spec(text: &str) -> DocSpec {
    if let Some(rest) = text.strip_prefix(WHOLE) {
        let sty = match rest.chars().next() {
            Some('1') => Sty::Lit,
            Some('2') => Sty::Em,
            Some('3') => Sty::Inv,
            _ => Sty::Text,
        };
        return DocSpec(vec![(sty, rest.chars().skip(1).collect())]);
    }
    if text.contains(SEP2) {
        let stys = [Sty::Nested, Sty::Text, Sty::Nested, Sty::Em];
        return DocSpec(text.split(SEP2).enumerate().map(|(i, f)| (stys[i % 4], f.to_string())).collect());
    }
    if !text.contains(SEP) {
        return DocSpec::plain(text);
    }
    // text, nested document, literal, emphasis, text, ..
    let stys = [Sty::Text, Sty::Nested, Sty::Lit, Sty::Em];
    DocSpec(text.split(SEP).enumerate().map(|(i, f)| (stys[i % 4], f.to_string())).collect())
}

pub fn skeleton(k: usize, text: &str) -> Opts {
    let d = spec(text);
    let sw = |n: Names| P::Switch(n);
    let plain = P::Switch(Names::both('p', "plain").help("plain neighbour help"));
    let mut o = match k {
        // item help, short term
        0 => Opts::new(P::Seq(vec![sw(Names { shorts: vec!['a'], longs: vec![], envs: vec![], help: Some(d), long_first: false }), plain])),
        // item help, term width just below / at / above MAX_TAB (24)
        1 => Opts::new(P::Seq(vec![P::Arg { names: Names { shorts: vec!['a'], longs: vec![long_name(14)], envs: vec![], help: Some(d), long_first: false }, ty: Ty::Os, adjacent: false, metavar: "M".into() }, plain])),
        2 => Opts::new(P::Seq(vec![P::Arg { names: Names { shorts: vec!['a'], longs: vec![long_name(16)], envs: vec![], help: Some(d), long_first: false }, ty: Ty::Os, adjacent: false, metavar: "M".into() }, plain])),
        3 => Opts::new(P::Seq(vec![P::Arg { names: Names { shorts: vec![], longs: vec![long_name(36)], envs: vec![], help: Some(d), long_first: false }, ty: Ty::Os, adjacent: false, metavar: "META".into() }, plain])),
        // description / header / footer
        4 => {
            let mut o = Opts::new(P::Seq(vec![plain]));
            o.cfg.descr = Some(d);
            o
        }
        5 => {
            let mut o = Opts::new(P::Seq(vec![plain]));
            o.cfg.header = Some(d.clone());
            o.cfg.footer = Some(d);
            o
        }
        // group title
        6 => Opts::new(P::Seq(vec![P::GroupHelp(P::Seq(vec![sw(Names::both('g', "grouped").help("grouped help")), plain]).bx(), d)])),
        // positional help
        7 => Opts::new(P::Seq(vec![plain, P::Pos { ty: Ty::Os, strict: Strict::Any, metavar: "POSITIONAL".into(), help: Some(d) }])),
        // command help and inner description
        8 => {
            let mut inner = Opts::new(P::Seq(vec![sw(Names::short('x'))]));
            inner.cfg.descr = Some(d.clone());
            Opts::new(P::Seq(vec![plain, P::Cmd { name: "cmd".into(), shorts: vec![], longs: vec![], inner: Box::new(inner), adjacent: false, help: Some(d) }]))
        }
        // env row + fallback suffix
        9 => Opts::new(P::Seq(vec![P::Fallback(P::Arg { names: Names { shorts: vec!['e'], longs: vec!["env-backed".into()], envs: vec!["BPAFMC_W".into()], help: Some(d), long_first: false }, ty: Ty::Os, adjacent: false, metavar: "E".into() }.bx(), Val::s("dflt"), true), plain])),
        // adjacent heading
        10 => Opts::new(P::Seq(vec![P::Adj(vec![P::ReqFlag(Names::long("point").help("adjacent flag help")), P::Pos { ty: Ty::Os, strict: Strict::Any, metavar: "X".into(), help: Some(d) }]).opt(), plain])),
        // the text is a custom usage of an item (it replaces the item in the usage line)
        12 => Opts::new(P::Seq(vec![P::CustomUsage(sw(Names::short('a').help("item with a custom usage")).bx(), d), plain])),
        // many items: usage line wraps
        11 => Opts::new(P::Seq(vec![sw(Names::long(&long_name(12)).help("one")), sw(Names { help: Some(d.clone()), ..Names::long(&(long_name(12) + "b")) }), sw(Names::long(&(long_name(12) + "c"))), sw(Names::long(&(long_name(12) + "d"))), sw(Names::long(&(long_name(12) + "e"))), plain])),
        _ => unreachable!(),
    };
    if k % 2 == 1 {
        o.cfg.version = Some(DocSpec::plain("1.0"));
    }
    o
}

fn strip_ws(s: &str) -> String {
    s.chars().filter(|c| !c.is_whitespace() && *c != SEP && *c != SEP2).collect()
}

/// cut a text at its first blank line, the way the short help is documented to do
fn first_par(s: &str) -> &str {
    // a paragraph break is an empty line: "\n\n"
    match s.find("\n\n") {
        Some(i) => &s[..i],
        None => s,
    }
}

fn viol(rule: &str, unit: &Value, k: usize, text: &str, width: usize, expected: String, observed: String) -> Violation {
    let mut sig = BTreeMap::new();
    sig.insert("skeleton".to_string(), k.to_string());
    sig.insert("clause".to_string(), rule.to_string());
    Violation { property: "C13".into(), rule: rule.into(), sig, unit: unit.clone(), case: json!({"skeleton": k, "text": text, "width": width}), expected, observed: observed.chars().take(900).collect(), size: text.len() * 10 + width.min(999) / 100 }
}

fn render_at(doc: &bpaf::Doc, w: usize) -> Result<String, String> {
    catch(|| format!("{:w$}", doc, w = w))
}

fn help_doc(p: &bpaf::OptionParser<Val>, argv: &[&str]) -> Option<(bpaf::Doc, bool)> {
    match run_raw(p, &toks(argv)) {
        Ok(Err(bpaf::ParseFailure::Stdout(d, full))) => Some((d, full)),
        Ok(Err(bpaf::ParseFailure::Stderr(d))) => Some((d, true)),
        _ => None,
    }
}

pub fn check_text(unit: &Value, k: usize, text: &str, widths: &[usize], only_width: Option<usize>, ctx: &mut Ctx) {
    let o = skeleton(k, text);
    let p = match build_checked(&o) {
        Ok(p) => p,
        Err(e) => {
            ctx.violation(viol("renders-without-panic", unit, k, text, 0, "builds".into(), e));
            return;
        }
    };
    let mut docs: Vec<(&str, bpaf::Doc)> = vec![];
    if let Some((d, _)) = help_doc(&p, &["--help"]) {
        docs.push(("help", d));
    }
    if k == 8 {
        if let Some((d, _)) = help_doc(&p, &["cmd", "--help"]) {
            docs.push(("cmd-help", d));
        }
    }
    // an error document
    if let Some((d, _)) = help_doc(&p, &["--no-such-flag", "word"]) {
        docs.push(("error", d));
    }
    // an error document quoting a whole sentence the user typed as one item (once per skeleton)
    if text.starts_with(WHOLE) && text[WHOLE.len_utf8()..].starts_with('0') {
        if let Some((d, _)) = help_doc(&p, &["--no-such-flag=a sentence of many short words that the user typed as one single item of the line and that is quoted back in the message as it is"]) {
            docs.push(("error-sentence", d));
        }
        if let Some((d, _)) = help_doc(&p, &["word", "a sentence of many short words that the user typed as one single item of the line and that is quoted back in the message as it is", "more"]) {
            docs.push(("error-sentence-word", d));
        }
    }
    ctx.s.states += 1;
    for (what, doc) in &docs {
        let reference = match render_at(doc, UNWRAPPED) {
            Ok(r) => r,
            Err(e) => {
                ctx.violation(viol("renders-without-panic", unit, k, text, UNWRAPPED, "renders".into(), e));
                continue;
            }
        };
        let ref_stripped = strip_ws(&reference);
        for &w in widths {
            if let Some(ow) = only_width {
                if ow != w {
                    continue;
                }
            }
            ctx.begin_case(|| json!({"skeleton": k, "text": text, "width": w}));
            ctx.s.evaluations += 1;
            ctx.s.transitions += 1;
            let r = match render_at(doc, w) {
                Ok(r) => r,
                Err(e) => {
                    ctx.violation(viol("renders-without-panic", unit, k, text, w, "renders".into(), e));
                    continue;
                }
            };
            // (a) wrapping only inserts or removes whitespace
            if strip_ws(&r) != ref_stripped {
                ctx.violation(viol("same-text-at-every-width", unit, k, text, w, format!("{} at width {} has the content of the unwrapped rendering: {:?}", what, w, reference.chars().take(300).collect::<String>()), r.clone()));
                continue;
            }
            // (b) width respected for w >= 40
            if w >= 40 {
                for line in r.lines() {
                    let n = line.chars().count();
                    if n <= w + 2 {
                        continue;
                    }
                    let t = line.trim_start();
                    // preformatted code line
                    if t.contains("codeline") {
                        continue;
                    }
                    // what follows the indentation or the definition term
                    let body = match t.rfind("  ") {
                        Some(i) => t[i..].trim_start(),
                        None => t,
                    };
                    if !body.contains(' ') {
                        continue; // a single unbreakable word (or nothing) after the term
                    }
                    // a single unbreakable word that itself does not fit
                    if body.split(' ').count() <= 2 && body.split(' ').any(|x| x.chars().count() + 8 > w) {
                        continue;
                    }
                    ctx.violation(viol("line-no-longer-than-width", unit, k, text, w, format!("{} at width {}: every breakable line <= {} columns", what, w, w + 2), format!("{} columns: {:?}", n, line)));
                    break;
                }
            }
            if w > 1 {
                ctx.s.nontrivial += 1;
            }
        }
    }
    // (c) the short form contains exactly the first paragraph of each help text
    if only_width.is_none() || only_width == Some(0) {
        if let Some((d, full)) = help_doc(&p, &["--help"]) {
            // styled mode: a blank line that only exists across two tokens is not judged
            // nor is one inside a nested document (it ends that document's own first paragraph;
            // whether it also ends the enclosing text's is not specified)
            let (sep, nested): (Option<char>, &[usize]) = if text.contains(SEP) { (Some(SEP), &[1]) } else if text.contains(SEP2) { (Some(SEP2), &[0, 2]) } else { (None, &[]) };
            let across = match sep {
                Some(sp) => text.replace(sp, "").matches("\n\n").count() != text.matches("\n\n").count() || text.split(sp).enumerate().any(|(i, f)| nested.contains(&(i % 4)) && f.contains("\n\n")),
                None => false,
            };
            if !full && !across {
                let o2 = skeleton(k, first_par(text));
                if let Ok(p2) = build_checked(&o2) {
                    if let Some((d2, _)) = help_doc(&p2, &["--help"]) {
                        ctx.s.evaluations += 1;
                        let short = catch(|| d.monochrome(false));
                        let cut_full = catch(|| d2.monochrome(true));
                        match (short, cut_full) {
                            (Ok(a), Ok(b)) => {
                                if strip_ws(&a) != strip_ws(&b) {
                                    ctx.violation(viol("short-help-is-first-paragraph", unit, k, text, 0, format!("short help == full help of the same definition with every text cut at its first blank line: {:?}", b), a));
                                } else {
                                    ctx.count("short-vs-first-paragraph-compared");
                                }
                            }
                            (Err(e), _) | (_, Err(e)) => ctx.violation(viol("renders-without-panic", unit, k, text, 0, "renders".into(), e)),
                        }
                    }
                }
            }
        }
    }
    if ctx.wants_sample() && text.len() > 12 {
        ctx.sample(|| json!({"skeleton": k, "text": text, "widths": widths.len(), "documents": docs.iter().map(|d| d.0).collect::<Vec<_>>()}));
    }
}

/// all concatenations of 1..=n fragments starting with fragment `first`
fn strings(first: usize, n: usize, styled: bool) -> Vec<String> {
    let mut out = vec![FRAGS[first].to_string()];
    let mut last = out.clone();
    for _ in 1..n {
        let mut next = vec![];
        for s in &last {
            for f in FRAGS {
                if styled {
                    next.push(format!("{}{}{}", s, SEP, f));
                } else {
                    next.push(format!("{}{}", s, f));
                }
            }
        }
        out.extend(next.iter().cloned());
        last = next;
    }
    out
}

impl Check for C13 {
    fn id(&self) -> &'static str {
        "C13"
    }
    fn level(&self) -> &'static str {
        "exploration"
    }
    fn units(&self, tier: Tier, _seed: u64) -> Vec<Value> {
        let widths: Vec<usize> = match tier {
            Tier::Quick => (1..=100).chain([120, 200, 300]).collect(),
            Tier::Thorough => (1..=300).collect(),
        };
        let mut out = vec![];
        for k in 0..SKELETONS {
            for first in 0..FRAGS.len() {
                out.push(serde_json::to_value(Unit { skeleton: k, first, max_frags: tier.pick(3, 4), widths: widths.clone(), styled: false, env: None, paragraphs: false }).unwrap());
                if k == 9 {
                    // the variable holds a value with a blank line in it: the row shows it
                    out.push(serde_json::to_value(Unit { skeleton: k, first, max_frags: tier.pick(2, 3), widths: widths.iter().copied().filter(|w| *w % 10 == 0).collect(), styled: false, env: Some("one\n\ntwo".into()), paragraphs: false }).unwrap());
                }
                // the same strings as separately styled tokens (text, literal, emphasis, ..)
                let few: Vec<usize> = widths.iter().copied().filter(|w| *w <= 3 || *w % 7 == 5 || *w >= 120).collect();
                out.push(serde_json::to_value(Unit { skeleton: k, first, max_frags: tier.pick(3, 4), widths: if tier == Tier::Quick { few } else { widths.clone() }, styled: true, env: None, paragraphs: false }).unwrap());
            }
            out.push(serde_json::to_value(Unit { skeleton: k, first: 0, max_frags: 0, widths: widths.clone(), styled: false, env: None, paragraphs: true }).unwrap());
        }
        out
    }
    fn run_unit(&self, unit: &Value, ctx: &mut Ctx) {
        let u: Unit = serde_json::from_value(unit.clone()).unwrap();
        std::env::remove_var("BPAFMC_W");
        if let Some(v) = &u.env {
            std::env::set_var("BPAFMC_W", v);
        }
        if u.paragraphs {
            for s in paragraphs() {
                check_text(unit, u.skeleton, &s, &u.widths, None, ctx);
            }
            return;
        }
        for s in strings(u.first, u.max_frags, u.styled) {
            if u.styled && !s.contains(SEP) {
                continue;
            }
            if u.styled {
                // the other rotation of styles (two nested documents around a text): only the
                // short-help clause, the widths are covered by the first rotation
                check_text(unit, u.skeleton, &s.replace(SEP, &SEP2.to_string()), &u.widths, Some(0), ctx);
            }
            check_text(unit, u.skeleton, &s, &u.widths, None, ctx);
        }
    }
    fn replay(&self, unit: &Value, case: &Value, ctx: &mut Ctx) {
        let u: Unit = serde_json::from_value(unit.clone()).unwrap();
        std::env::remove_var("BPAFMC_W");
        if let Some(v) = &u.env {
            std::env::set_var("BPAFMC_W", v);
        }
        let k = case["skeleton"].as_u64().unwrap_or(0) as usize;
        let text = case["text"].as_str().unwrap_or("").to_string();
        let w = case["width"].as_u64().unwrap_or(0) as usize;
        ctx.s.evaluations += 1;
        check_text(unit, k, &text, &u.widths, Some(w), ctx);
    }
    fn rule(&self) -> String {
        "documents = help (and sub-command help, and an error message) of 12 layout skeletons (item help with term widths around the tab stop, descr, header+footer, group title, positional help, command help, env row + fallback suffix, adjacent heading, long usage line) with the text slot ranging over EVERY concatenation of <=3 (thorough 4) fragments from {word, 120-char word, space, newline, blank line, newline+space, code line, é, 日本語, tab, NBSP, ESC sequence, --flag}, as one plain string and as a sequence of separately styled tokens (two rotations: text / nested document / literal / emphasis and nested document / text / nested document / emphasis; quick: every seventh width); each document rendered at every width (quick: 1..100, 120, 200, 300; thorough: 1..300) via the Display width and at 65535 as 'unwrapped'; (a) identical once whitespace is removed, (b) for widths >= 40 no line longer than width+2 unless what follows the indentation/term is a single unbreakable word or it is a code line, (c) monochrome(false) equals monochrome(true) of the same definition with the text cut at its first blank line; evaluation = one render; non-trivial = render at width > 1 satisfying (a),(b); plus nine line-filling paragraphs of short words carrying control / zero-width / wide characters at every width, and the env row showing a value with a blank line".into()
    }
    fn bounds(&self, tier: Tier) -> Value {
        json!({"fragments_per_string": tier.pick(3, 4), "widths": tier.pick("1..100, 120, 200, 300", "1..300"), "skeletons": 13})
    }
}
