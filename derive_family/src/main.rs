//! C17 runner: derived vs hand-written parsers on every vector of the token tree.
mod generated;
use bpaf::*;
use std::ffi::OsString;

#[derive(Debug, PartialEq, Eq, Clone)]
pub enum Out {
    Value(String),
    Stdout(String),
    Stderr(String),
    Completion(String),
    Panic,
}

pub fn observe<T: std::fmt::Debug>(p: &OptionParser<T>, args: &[OsString]) -> Out {
    let r = std::panic::catch_unwind(std::panic::AssertUnwindSafe(|| p.run_inner(Args::from(args))));
    match r {
        Err(_) => Out::Panic,
        Ok(Ok(v)) => Out::Value(format!("{:?}", v)),
        Ok(Err(ParseFailure::Stdout(d, full))) => Out::Stdout(d.monochrome(full)),
        Ok(Err(ParseFailure::Stderr(d))) => Out::Stderr(d.monochrome(true)),
        Ok(Err(ParseFailure::Completion(c))) => Out::Completion(c),
    }
}

fn tree(alpha: &[&str], max: usize, cur: &mut Vec<OsString>, f: &mut dyn FnMut(&[OsString])) {
    f(cur);
    if cur.len() == max {
        return;
    }
    for a in alpha {
        cur.push(OsString::from(a));
        tree(alpha, max, cur, f);
        cur.pop();
    }
}

fn main() {
    std::panic::set_hook(Box::new(|_| {}));
    let args: Vec<String> = std::env::args().collect();
    let shard: usize = args.get(1).and_then(|s| s.parse().ok()).unwrap_or(0);
    let n: usize = args.get(2).and_then(|s| s.parse().ok()).unwrap_or(1);
    let len: usize = args.get(3).and_then(|s| s.parse().ok()).unwrap_or(2);
    let only: Option<usize> = args.get(4).and_then(|s| s.parse().ok());
    let cases = generated::cases();
    let mut evaluations = 0u64;
    let mut accepted = 0u64;
    let mut helps = 0u64;
    let mut types = 0u64;
    for c in &cases {
        if let Some(o) = only {
            if c.id != o {
                continue;
            }
        } else if c.id % n != shard {
            continue;
        }
        types += 1;
        let mut report = |argv: &[OsString], d: &Out, m: &Out| {
            let rule = match (d, m) {
                (Out::Value(_), Out::Value(_)) => "equal-values",
                (a, b) if std::mem::discriminant(a) != std::mem::discriminant(b) => "equal-outcome-class",
                (Out::Stdout(_), _) => "equal-help-text",
                _ => "equal-error-text",
            };
            let v = serde_json::json!({"id": c.id, "descr": c.descr, "argv": argv.iter().map(|a| a.to_string_lossy().into_owned()).collect::<Vec<_>>(), "rule": rule, "derived": format!("{:?}", d), "manual": format!("{:?}", m)});
            println!("V {}", v);
        };
        let mut cur = vec![];
        tree(c.alphabet, len, &mut cur, &mut |argv| {
            evaluations += 1;
            let d = (c.derived)(argv);
            let m = (c.manual)(argv);
            if let Out::Value(_) = d {
                accepted += 1;
            }
            if d != m {
                report(argv, &d, &m);
            }
        });
        for p in c.paths {
            for h in ["--help", "-h", "--version"] {
                let mut argv: Vec<OsString> = p.iter().map(OsString::from).collect();
                argv.push(OsString::from(h));
                evaluations += 1;
                helps += 1;
                let d = (c.derived)(&argv);
                let m = (c.manual)(&argv);
                if d != m {
                    report(&argv, &d, &m);
                }
            }
            // full help
            let mut argv: Vec<OsString> = p.iter().map(OsString::from).collect();
            argv.push(OsString::from("--help"));
            argv.push(OsString::from("--help"));
            evaluations += 1;
            let d = (c.derived)(&argv);
            let m = (c.manual)(&argv);
            if d != m {
                report(&argv, &d, &m);
            }
        }
    }
    println!("S {}", serde_json::json!({"types": types, "evaluations": evaluations, "accepted": accepted, "help_requests": helps, "total_types": cases.len()}));
}
